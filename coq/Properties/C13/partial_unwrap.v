(* C13: functools.partial nests of ANY depth.  The argument merge generated from the partial branch of
   converted_call is the CPython one (merge_correct partial_gen, per run), and for every nest, every
   call-site args / kwargs (None or a dict), every set of partial objects at which an earlier rule stops
   the unwrapping: calling what converted_call ends up with is the same call (same base callable, same
   positional list, same keyword dict) as calling the nest directly.  partial_binding: closed form of the
   direct call -- positional arguments innermost first then the call-site ones; a keyword is taken from
   the call site, else from the outermost partial that stores it. *)
From Coq Require Import List String Ascii Bool Arith.
Import ListNotations.
Require Import MV.Policy.PolicySyntax MV.Policy.Policy MV.Policy.Spec MV.Generated.C13_gen MV.Policy.PolicyProofs.

Theorem partial_merge_generated : merge_correct partial_gen.
Proof.
  split.
  - intros; unfold new_args; simpl. rewrite ?app_nil_r; reflexivity.
  - intros [m|] [u|]; reflexivity.
Qed.

Theorem partial_unwrap : forall (stops : callable -> bool) (c : callable) (args : list val) (okw : option kwmap),
  let '(c', a', k') := unwrap partial_gen stops c args okw in
  direct_call c' a' (kw_default k') = direct_call c args (kw_default okw)
  /\ match c' with Base _ => True | Partial _ _ _ => stops c' = true end.
Proof.
  intros stops c args okw.
  pose proof (partial_unwrap_gen partial_gen partial_merge_generated stops c args okw) as H1.
  pose proof (unwrap_stops partial_gen stops c args okw) as H2.
  destruct (unwrap partial_gen stops c args okw) as [[c' a'] k']. split; assumption.
Qed.

Theorem partial_binding : forall c : callable, wf_callable c -> forall args kw, NoDup (keys kw) ->
  exists K, direct_call c args kw = (base_id c, stored_args c ++ args, K)
    /\ NoDup (keys K)
    /\ forall k, kw_get k K = match kw_get k kw with Some x => Some x | None => stored_kw k c end.
Proof. exact PolicyProofs.partial_binding. Qed.

Local Open Scope string_scope.
Example partial_overlap_nonvacuous :
  unwrap partial_gen (fun _ => false)
         (Partial (Partial (Base 7) [1] (Some [("y", 10); ("z", 11)])) [2] (Some [("y", 20)])) [3] (Some [("z", 30)])
  = (Base 7, [1; 2; 3], Some [("y", 20); ("z", 30)]).
Proof. vm_compute; reflexivity. Qed.
Print Assumptions partial_merge_generated.
Print Assumptions partial_unwrap.
Print Assumptions partial_binding.
