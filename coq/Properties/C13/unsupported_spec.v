(* C13: conversion.is_unsupported, as generated from the source, is true exactly for constructors,
   lru_cache wrappers, wrapt wrappers (function or bound), members of the listed stdlib modules and
   TF plugins -- for all 64 combinations. *)
From Coq Require Import List String Ascii Bool Arith.
Import ListNotations.
Require Import MV.Policy.PolicySyntax MV.Policy.Policy MV.Policy.Spec MV.Generated.C13_gen MV.Policy.PolicyProofs.

Theorem unsupported_spec : forall u : unsup_sit,
  first_match (unsup_atoms u) unsupported_gen = Some (doc_unsupported u).
Proof. apply unsupported_sound. vm_compute; reflexivity. Qed.
Print Assumptions unsupported_spec.
