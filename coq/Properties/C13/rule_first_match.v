(* C13: allow-list rules.  For EVERY module name (all strings) and every rule table, the loop of
   is_allowlisted returns the action of the FIRST rule whose prefix covers the name, where "covers" is
   exact-or-dotted (name = prefix, or name = prefix.<rest>) -- never a plain string prefix -- and returns
   "no rule" iff no rule covers it.  Per run: Rule.matches as generated offers both alternatives and the
   generated table has no inert rule. *)
From Coq Require Import List String Ascii Bool Arith.
Import ListNotations.
Require Import MV.Policy.PolicySyntax MV.Policy.Policy MV.Policy.Spec MV.Generated.C13_gen MV.Policy.PolicyProofs.

Theorem rule_first_match : forall (rules : list (rule_action * string)) (name : string),
  rules_wf rules = true ->
  match rule_scan matches_gen rules name with
  | RNone => forall a p, In (a, p) rules -> ~ dotted_prefix p name
  | act => exists l1 p l2, rules = l1 ++ (act, p) :: l2 /\ dotted_prefix p name
                           /\ forall a' p', In (a', p') l1 -> ~ dotted_prefix p' name
  end.
Proof. apply rule_first_match_gen. vm_compute; reflexivity. Qed.

Theorem rules_generated_wf : rules_wf rules_gen = true.
Proof. vm_compute; reflexivity. Qed.

Local Open Scope string_scope.
Example rules_nonvacuous :
  rule_scan matches_gen rules_gen "malt.impl.api" = RDoNotConvert
  /\ rule_scan matches_gen rules_gen "malt" = RDoNotConvert
  /\ rule_scan matches_gen rules_gen "maltese" = RNone
  /\ rule_scan matches_gen rules_gen "tensorflow.python.training.experimental.loss_scale" = RConvert
  /\ rule_scan matches_gen rules_gen "tensorflow.python" = RDoNotConvert.
Proof. vm_compute; repeat split. Qed.
Print Assumptions rule_first_match.
Print Assumptions rules_generated_wf.
