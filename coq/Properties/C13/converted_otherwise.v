(* C13: conversely, when no documented exclusion applies and the conversion succeeds, the converted form
   is what gets called (nothing cached as not-to-convert, no warning). *)
From Coq Require Import List String Ascii Bool Arith.
Import ListNotations.
Require Import MV.Policy.PolicySyntax MV.Policy.Policy MV.Policy.Spec MV.Generated.C13_gen MV.Policy.PolicyProofsMain.

Theorem converted_otherwise : forall s : situation,
  reaches_conversion s = true -> s_fault s = NoFault -> s_kind s <> KNoCall ->
  exists inv,
    run chain_gen target_gen self_prepend_gen final_call_gen cu_cache_gen cu_call_gen fb_warn_gen fb_final_gen s
      = OInvoke inv false false true
    /\ is_wconverted (i_who inv) = true.
Proof. exact PolicyProofsMain.converted_otherwise. Qed.
Print Assumptions converted_otherwise.
