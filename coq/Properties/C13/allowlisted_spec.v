(* C13: conversion.is_allowlisted, as generated from the source, decides as documented for all
   3 * 2^15 combinations of what it looks at: the module rule first (Convert -> no, DoNotConvert -> yes),
   otherwise generator functions, callable objects with an allowed __call__, methods of TestCase
   subclasses or of allowed defining classes, namedtuple types. *)
From Coq Require Import List String Ascii Bool Arith.
Import ListNotations.
Require Import MV.Policy.PolicySyntax MV.Policy.Policy MV.Policy.Spec MV.Generated.C13_gen MV.Policy.PolicyProofs.

Theorem allowlisted_spec : forall w : allow_sit,
  first_match (allow_atoms w) allowlisted_gen = Some (doc_allowlisted w).
Proof. apply allowlisted_sound. vm_compute; reflexivity. Qed.
Print Assumptions allowlisted_spec.
