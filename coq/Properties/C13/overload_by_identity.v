(* C13: py_builtins.overload_of, as generated from the source, replaces a native callable by a builtin
   overload exactly when the callable IS one of the objects listed in SUPPORTED_BUILTINS -- whatever its
   __name__ (a bound C method named abs / any / all / len ... is called as it is, with its receiver);
   and every listed builtin has an entry in BUILTIN_FUNCTIONS_MAP under its own name (no KeyError),
   each entry being the overload named after its key. *)
From Coq Require Import List String Ascii Bool Arith.
Import ListNotations.
Require Import MV.Policy.PolicySyntax MV.Policy.Policy MV.Policy.Spec MV.Generated.C13_gen.

Theorem overload_by_identity : forall o : ov_sit,
  first_match (ov_atoms o) overload_gen = Some (doc_overload o).
Proof. intros [[|] [|]]; vm_compute; reflexivity. Qed.

Theorem overload_map_total :
  forallb (fun n => existsb (String.eqb n) overload_map_gen) supported_builtins_gen = true.
Proof. vm_compute; reflexivity. Qed.
Print Assumptions overload_by_identity.
Print Assumptions overload_map_total.
