(* C13: whatever the situation, the wrapper makes exactly one call and it is bound like the direct
   call f( *args, **kwargs ): same callable (f itself, its builtin overload, or the converted form of
   the function underlying f), same positional arguments (self / the callable object re-inserted where
   the underlying function needs it), keywords passed iff there are any.  Guard = the two callable kinds
   of the known findings (plain function carrying a __self__ attribute; __call__ declared static), for
   which binding_refuted exhibits the failure on the same model.  OUnwrap is closed by partial_unwrap,
   OFrame (eval/super/globals/locals) belongs to C14. *)
From Coq Require Import List String Ascii Bool Arith.
Import ListNotations.
Require Import MV.Policy.PolicySyntax MV.Policy.Policy MV.Policy.Spec MV.Generated.C13_gen MV.Policy.PolicyProofsMain.

Theorem invoked_exactly_once : forall s : situation,
  binding_guard s = true -> has_options s = true ->
  match run chain_gen target_gen self_prepend_gen final_call_gen cu_cache_gen cu_call_gen fb_warn_gen fb_final_gen s with
  | OInvoke inv _ _ _ => same_call s inv = true
  | OUnwrap => s_partial s = true
  | OFrame _ => is_builtin (s_builtin s) = true
  | OReraise => s_strict s = true
  | OError | OStuck => False
  end.
Proof. exact PolicyProofsMain.invoked_exactly_once. Qed.
Print Assumptions invoked_exactly_once.
