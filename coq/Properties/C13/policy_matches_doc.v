(* C13: for EVERY situation (all values of every predicate converted_call looks at: 8 257 536
   combinations, enumerated completely) the decision chain generated from the current source of
   api.converted_call takes exactly the action of the documented policy (Spec.doc_action, written
   independently from functions.md / error_handling.md / the property text). *)
From Coq Require Import List String Ascii Bool Arith.
Import ListNotations.
Require Import MV.Policy.PolicySyntax MV.Policy.Policy MV.Policy.Spec MV.Generated.C13_gen MV.Policy.PolicyProofsMain.

Theorem policy_matches_doc : forall s : situation,
  decide chain_gen s = Some (doc_action s).
Proof. exact PolicyProofsMain.policy_matches_doc. Qed.
(* non-vacuity: the chain does convert something, and does refuse something *)
Example policy_nonvacuous :
  decide chain_gen (mk_situation false true false false false false NotBuiltin KwNone false false false true
                                 KFunction CodeFile NoFault false true) = Some AConvertCall
  /\ decide chain_gen (mk_situation false true false true false false NotBuiltin KwNone false false false true
                                 KFunction CodeFile NoFault false true) = Some (ACallUnconv false).
Proof. split; vm_compute; reflexivity. Qed.
Print Assumptions policy_matches_doc.
