(* C13: whenever a target reaches the conversion stage (none of the documented exclusions applies) and
   the conversion fails -- at whatever stage, with whatever exception kind, or because no convertible
   entity can be derived from f -- then in strict mode the error propagates, and otherwise the target
   itself is called once, unconverted, with its own arguments, (f, options) is recorded in the
   allow-list cache (cache_update = true), a conversion was attempted, and a warning is printed
   (always, except for "source code not accessible" in an environment without source support). *)
From Coq Require Import List String Ascii Bool Arith.
Import ListNotations.
Require Import MV.Policy.PolicySyntax MV.Policy.Policy MV.Policy.Spec MV.Generated.C13_gen MV.Policy.PolicyProofsMain.

Theorem fallback_any_stage : forall s : situation,
  reaches_conversion s = true ->
  (faulty (s_fault s) = true \/ s_kind s = KNoCall) ->
  if s_strict s
  then run chain_gen target_gen self_prepend_gen final_call_gen cu_cache_gen cu_call_gen fb_warn_gen fb_final_gen s = OReraise
  else exists form,
    run chain_gen target_gen self_prepend_gen final_call_gen cu_cache_gen cu_call_gen fb_warn_gen fb_final_gen s
      = OInvoke (mk_inv WTarget PArgs form) true (doc_warns s) true
    /\ form_ok (s_kwargs s) form = true.
Proof. exact PolicyProofsMain.fallback_any_stage. Qed.
Example fallback_warns_in_this_environment : forall s, s_inspect_supported s = true -> doc_warns s = true.
Proof. intros s H; unfold doc_warns; destruct (exc_kind s); auto. Qed.
Print Assumptions fallback_any_stage.
