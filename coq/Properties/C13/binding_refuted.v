(* C13, known findings on the faithful model: without the guard of invoked_exactly_once the statement
   is false -- (1) a plain function object that carries an attribute __self__ gets that value
   prepended to its arguments (the source tests `f_self is not None` instead of ismethod);
   (2) a callable object whose type declares __call__ as a staticmethod gets itself prepended. *)
From Coq Require Import List String Ascii Bool Arith.
Import ListNotations.
Require Import MV.Policy.PolicySyntax MV.Policy.Policy MV.Policy.Spec MV.Generated.C13_gen MV.Policy.PolicyProofsMain.

Theorem binding_refuted :
  (exists s inv cu w a, has_options s = true /\ s_kind s = KFunctionSelfAttr
       /\ run chain_gen target_gen self_prepend_gen final_call_gen cu_cache_gen cu_call_gen fb_warn_gen fb_final_gen s
          = OInvoke inv cu w a /\ same_call s inv = false)
  /\ (exists s inv cu w a, has_options s = true /\ s_kind s = KCallableStatic
       /\ run chain_gen target_gen self_prepend_gen final_call_gen cu_cache_gen cu_call_gen fb_warn_gen fb_final_gen s
          = OInvoke inv cu w a /\ same_call s inv = false).
Proof. exact PolicyProofsMain.binding_refuted. Qed.
Print Assumptions binding_refuted.
