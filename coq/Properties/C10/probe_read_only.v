(* C10: the lock-free fast-path probe is read-only.  Per run: the translator
   found `_TransformedFnCache.has` free of writes (no route through __getitem__,
   which creates buckets) -- cache_has_read_only is only emitted then; on the
   machine a `has` step changes neither the cache, the lock, the counters nor
   any other thread. *)
From Coq Require Import List Arith Bool.
Import ListNotations.
Require Import MV.Cache.Machine MV.Cache.KeySrc MV.Generated.C10_gen MV.Cache.MachineProofs.

Theorem probe_read_only :
  cache_has_read_only = true /\
  forall s tid k e h m r s',
    t_req (s_thr s tid) = Some (k, e) -> t_k (s_thr s tid) = IIfHas h m :: r ->
    step_thread s tid = Some s' ->
    s_cache s' = s_cache s /\ s_lock s' = s_lock s /\ s_tcount s' = s_tcount s /\ s_serial s' = s_serial s
    /\ forall j, j <> tid -> s_thr s' j = s_thr s j.
Proof. split; [reflexivity | exact MachineProofs.probe_read_only]. Qed.
Print Assumptions probe_read_only.
