(* C10: every cached factory and every factory handed to a completed request
   was produced by transforming exactly that request's (code class, options). *)
From Coq Require Import List Arith Bool.
Import ListNotations.
Require Import MV.Cache.Machine MV.Cache.KeySrc MV.Generated.C10_gen MV.Cache.MachineProofs.

Theorem cache_coherent : forall s, reach transform_function_prog s ->
  (forall k f, s_cache s k = Some f -> f_key f = k) /\
  (forall k e f e', In (k, e, f, e') (s_out s) -> f_key f = k).
Proof. apply MachineProofs.cache_coherent. vm_compute; reflexivity. Qed.
Print Assumptions cache_coherent.

(* non-vacuity: completed requests exist (a miss and a hit), whatever the
   shape of the generated program *)
Require Import MV.Cache.MachineCheck.
Example completed_requests_exist : exists s, reach transform_function_prog s /\ length (s_out s) = 2.
Proof.
  destruct (run transform_function_prog init
              (seq_schedule transform_function_prog init [(0, (3, 1), 7); (1, (3, 1), 8)])) as [s|] eqn:E;
    [|vm_compute in E; discriminate].
  exists s. split.
  - apply run_reach with (s0 := init)
      (ls := seq_schedule transform_function_prog init [(0, (3, 1), 7); (1, (3, 1), 8)]).
    + apply reach_init.
    + vm_compute. reflexivity.
    + exact E.
  - vm_compute in E. inversion E. reflexivity.
Qed.
