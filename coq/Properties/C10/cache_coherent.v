(* C10: every cached factory and every factory handed to a completed request
   was produced by transforming exactly that request's (code class, options). *)
From Coq Require Import List Arith Bool.
Import ListNotations.
Require Import MV.Cache.Machine MV.Cache.KeySrc MV.Generated.C10_gen MV.Cache.MachineProofs.

Theorem cache_coherent : forall s, reach transform_function_prog s ->
  (forall k f, s_cache s k = Some f -> f_key f = k) /\
  (forall k e f e', In (k, e, f, e') (s_out s) -> f_key f = k).
Proof. apply MachineProofs.cache_coherent. vm_compute; reflexivity. Qed.
Print Assumptions cache_coherent.

(* non-vacuity: completed requests exist, hits included *)
Example completed_requests_exist : exists s, reach transform_function_prog s /\ length (s_out s) = 2.
Proof.
  eexists. split.
  - apply run_reach with (s0 := init)
      (ls := [LStart 0 (3,1) 7; LStart 1 (3,1) 8; LStep 0; LStep 1; LStep 0; LStep 0; LStep 0; LStep 0; LStep 0; LStep 0;
              LStep 1; LStep 1; LStep 1; LStep 1; LStep 0; LStep 0; LStep 1; LStep 1]).
    + apply reach_init.
    + reflexivity.
    + vm_compute. reflexivity.
  - vm_compute. reflexivity.
Qed.
