(* C10: the weak machine -- a bucket may be collected while a request of the
   same code class is in flight (equal-by-value code objects, see the known
   finding c10-alias-gc-keyerror).  A request may then die of KeyError
   (keyerror_under_alias_gc_refuted), but for every schedule whatsoever: at
   most one transformation per key and epoch, cached and handed-out factories
   belong to the asking request's (code class, options), instantiation uses
   the asking function's environment, and no lock is left behind. *)
From Coq Require Import List Arith Bool.
Import ListNotations.
Require Import MV.Cache.Machine MV.Cache.KeySrc MV.Generated.C10_gen MV.Cache.MachineProofs.

Theorem weak_machine_safe : forall s, reach_weak transform_function_prog s ->
  (forall k, s_tcount s k <= 1) /\
  (forall k f, s_cache s k = Some f -> f_key f = k) /\
  (forall k e f e', In (k, e, f, e') (s_out s) -> f_key f = k /\ e' = e) /\
  (forall o d, s_lock s = Some (o, d) -> t_req (s_thr s o) <> None).
Proof. apply MachineProofs.weak_machine_safe. vm_compute; reflexivity. Qed.
Print Assumptions weak_machine_safe.
