(* C10: each completed request is instantiated with its own environment
   (globals / closure / defaults of the requesting function object), and two
   requests whose keys differ (other code class or other options) never get the
   same factory. *)
From Coq Require Import List Arith Bool.
Import ListNotations.
Require Import MV.Cache.Machine MV.Cache.KeySrc MV.Generated.C10_gen MV.Cache.MachineProofs.

Theorem no_alias : forall s, reach transform_function_prog s ->
  forall k1 e1 f1 b1 k2 e2 f2 b2,
    In (k1, e1, f1, b1) (s_out s) -> In (k2, e2, f2, b2) (s_out s) ->
    b1 = e1 /\ b2 = e2 /\ (k1 <> k2 -> f1 <> f2).
Proof. apply MachineProofs.no_alias. vm_compute; reflexivity. Qed.
Print Assumptions no_alias.
