(* C10: the allowlist cache (second cache on the request path).  For any
   number of threads, any interleaving of the reads and the (separately
   scheduled) writes, any history of requests from enabled and disabled
   contexts: a request made with AutoGraph enabled for a (function, options)
   pair that has no context-independent reason to run as-is runs CONVERTED
   code -- whatever was requested before, from whatever context or thread.
   Proved for every exit table with exits_ok, instantiated with the generated
   one.  Non-vacuity: with a context-dependent exit that writes the cache the
   statement is false. *)
From Coq Require Import List Arith Bool.
Import ListNotations.
Require Import MV.Cache.Machine MV.Cache.KeySrc MV.Cache.Allowlist MV.Generated.C10_gen MV.Cache.AllowlistProofs.

Theorem enabled_requests_converted : forall (static : akey -> bool) ls s,
  arun static allowlist_exits ainit ls = Some s ->
  forall r c, In (r, c) (alog s) -> a_disabled r = false -> static (a_key r) = false -> c = true.
Proof. intros static. apply AllowlistProofs.enabled_requests_converted. vm_compute; reflexivity. Qed.
Print Assumptions enabled_requests_converted.

Example disabled_exit_must_not_write :
  exists ls s, arun (fun _ => false) [(true, true)] ainit ls = Some s /\
    In (mkAReq (0, 0) false, false) (alog s).
Proof.
  exists [ADecide 0 (mkAReq (0, 0) true); ACommit 0; ADecide 1 (mkAReq (0, 0) false)].
  eexists. split; [vm_compute; reflexivity|]. vm_compute. left; reflexivity.
Qed.
