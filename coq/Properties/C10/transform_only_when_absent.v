(* C10: whenever some thread is about to run the source transformation for key
   k, it holds the lock, k is not cached and no other transformation of k has
   succeeded since the last collection. *)
From Coq Require Import List Arith Bool.
Import ListNotations.
Require Import MV.Cache.Machine MV.Cache.KeySrc MV.Generated.C10_gen MV.Cache.MachineProofs.

Theorem transform_only_when_absent : forall s tid k e r,
  reach transform_function_prog s ->
  t_req (s_thr s tid) = Some (k, e) -> t_k (s_thr s tid) = ITransform :: r ->
  s_cache s k = None /\ s_tcount s k = 0 /\ lock_depth s tid <> 0.
Proof. apply MachineProofs.transform_only_when_absent. vm_compute; reflexivity. Qed.
Print Assumptions transform_only_when_absent.
