(* C10, per-run obligation recorded by the translator: the source recovery on
   the request path (inspect_utils.getimmediatesource, parser.parse_entity /
   dedent_block / parse) keeps no module-level mutable state -- no memo below
   the conversion cache -- so ITransform transforms the current source of the
   requesting function: in the machine the nodes a transform step produces are
   those of the request's own key. *)
From Coq Require Import List Arith Bool.
Import ListNotations.
Require Import MV.Cache.Machine MV.Cache.KeySrc MV.Cache.Allowlist MV.Generated.C10_gen.

Theorem source_recovery_stateless : source_recovery_stateless = true /\
  forall s tid k e r s', t_req (s_thr s tid) = Some (k, e) -> t_k (s_thr s tid) = ITransform :: r ->
    step_thread s tid = Some s' -> t_nodes (s_thr s' tid) = Some k.
Proof.
  split; [reflexivity|]. intros s tid k e r s' Hr Hk H. unfold step_thread in H. rewrite Hr, Hk in H.
  inversion H; subst; simpl. unfold upd. rewrite Nat.eqb_refl. reflexivity.
Qed.
Print Assumptions source_recovery_stateless.
