(* C10, per-run obligation: the cache-access code of PyToPy.transform_function,
   as extracted from the source of this run, obeys the double-checked-locking
   discipline.  Non-vacuity: the discipline rejects the same code without the
   second `has` and without the lock, and on the first of these the machine
   really transforms one key twice. *)
From Coq Require Import List Arith Bool.
Import ListNotations.
Require Import MV.Cache.Machine MV.Cache.KeySrc MV.Generated.C10_gen MV.Cache.MachineProofs.

Theorem double_checked_generated : double_checked transform_function_prog = true.
Proof. vm_compute. reflexivity. Qed.
Print Assumptions double_checked_generated.

Example discipline_rejects_single_check :
  double_checked [IIfHas [IGet] [ILock [ITransform; ICreate; IPut]]; IInstantiate] = false
  /\ double_checked [IIfHas [IGet] [IIfHas [IGet] [ITransform; ICreate; IPut]]; IInstantiate] = false
  /\ exists ls s, run [IIfHas [IGet] [ILock [ITransform; ICreate; IPut]]; IInstantiate] init ls = Some s
                 /\ s_tcount s (0, 0) = 2.
Proof.
  split; [vm_compute; reflexivity|]. split; [vm_compute; reflexivity|].
  exists [LStart 0 (0,0) 0; LStart 1 (0,0) 1; LStep 0; LStep 1;
          LStep 0; LStep 0; LStep 0; LStep 0; LStep 0;
          LStep 1; LStep 1].
  eexists. split; [vm_compute; reflexivity|]. vm_compute. reflexivity.
Qed.
