(* C10: the cache lock is only ever held by a thread with a request in flight
   (a finished or failed request leaves no lock behind). *)
From Coq Require Import List Arith Bool.
Import ListNotations.
Require Import MV.Cache.Machine MV.Cache.KeySrc MV.Generated.C10_gen MV.Cache.MachineProofs.

Theorem lock_released : forall s, reach transform_function_prog s ->
  forall o d, s_lock s = Some (o, d) -> t_req (s_thr s o) <> None.
Proof. apply MachineProofs.lock_released. vm_compute; reflexivity. Qed.
Print Assumptions lock_released.
