(* C10, known finding (c10-alias-gc-keyerror): no_error is FALSE in the weak
   machine, where a bucket may be collected while a request of the same code
   class is in flight (CPython: the bucket is keyed weakly by the first of
   several equal-by-value code objects).  Thread 1 sees `has` succeed, the
   bucket dies, `self._cache[fn][key]` raises KeyError. *)
From Coq Require Import List Arith Bool.
Import ListNotations.
Require Import MV.Cache.Machine MV.Cache.KeySrc MV.Generated.C10_gen MV.Cache.MachineProofs.

Require Import MV.Cache.MachineCheck.
Theorem keyerror_under_alias_gc_refuted :
  exists ls s, run transform_function_prog init ls = Some s /\ s_err s <> [].
Proof.
  exists (alias_witness transform_function_prog).
  destruct (run transform_function_prog init (alias_witness transform_function_prog)) as [s|] eqn:E;
    [|vm_compute in E; discriminate].
  exists s. split; [reflexivity|].
  vm_compute in E. inversion E. discriminate.
Qed.
Print Assumptions keyerror_under_alias_gc_refuted.
