(* C10, known finding (c10-alias-gc-keyerror): no_error is FALSE in the weak
   machine, where a bucket may be collected while a request of the same code
   class is in flight (CPython: the bucket is keyed weakly by the first of
   several equal-by-value code objects).  Thread 1 sees `has` succeed, the
   bucket dies, `self._cache[fn][key]` raises KeyError. *)
From Coq Require Import List Arith Bool.
Import ListNotations.
Require Import MV.Cache.Machine MV.Cache.KeySrc MV.Generated.C10_gen MV.Cache.MachineProofs.

Theorem keyerror_under_alias_gc_refuted :
  exists ls s, run transform_function_prog init ls = Some s /\ s_err s <> [].
Proof.
  exists [LStart 0 (0,0) 0; LStep 0; LStep 0; LStep 0; LStep 0; LStep 0; LStep 0; LStep 0; LStep 0; LStep 0;
          LStart 1 (0,0) 1; LStep 1; LGc 0; LStep 1].
  eexists. split; [vm_compute; reflexivity|]. vm_compute. discriminate.
Qed.
Print Assumptions keyerror_under_alias_gc_refuted.
