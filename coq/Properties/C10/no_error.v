(* C10: in the strict machine (a bucket is only collected when no request on its
   code class is in flight) no request dies of a KeyError on the cache, of an
   unbound local or of releasing a lock it does not hold. *)
From Coq Require Import List Arith Bool.
Import ListNotations.
Require Import MV.Cache.Machine MV.Cache.KeySrc MV.Generated.C10_gen MV.Cache.MachineProofs.

Theorem no_error : forall s, reach transform_function_prog s -> s_err s = [].
Proof. apply MachineProofs.no_error. vm_compute; reflexivity. Qed.
Print Assumptions no_error.
