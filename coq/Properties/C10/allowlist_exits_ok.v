(* C10, per-run obligation on the exits of api.converted_call extracted from
   the source: no exit whose guard depends on the calling context (the
   thread-local ControlStatusCtx, e.g. "AutoGraph is disabled in context")
   writes the global allowlist cache. *)
From Coq Require Import List Arith Bool.
Import ListNotations.
Require Import MV.Cache.Machine MV.Cache.KeySrc MV.Cache.Allowlist MV.Generated.C10_gen.

Theorem allowlist_exits_ok : exits_ok allowlist_exits = true.
Proof. vm_compute. reflexivity. Qed.
Print Assumptions allowlist_exits_ok.
