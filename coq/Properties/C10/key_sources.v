(* C10, per-run obligation on the generated key functions: the bucket key is
   the code object and the subkey the whole options value, hence two requests
   share a cache entry iff they share code class and options. *)
From Coq Require Import List Arith Bool.
Import ListNotations.
Require Import MV.Cache.Machine MV.Cache.KeySrc MV.Generated.C10_gen MV.Cache.MachineProofs.

Theorem key_sources :
  cache_key_src = KeyCodeObject /\ cache_subkey_src = SubOptions /\
  forall proj f1 c1 o1 f2 c2 o2,
    req_key cache_key_src cache_subkey_src proj f1 c1 o1 = req_key cache_key_src cache_subkey_src proj f2 c2 o2
    <-> c1 = c2 /\ o1 = o2.
Proof. split; [reflexivity|]. split; [reflexivity|]. exact req_key_spec. Qed.
Print Assumptions key_sources.
