(* C10: the allowlist cache over a pool of RELATED function objects.  For any
   heap of function objects (decorator wrappers carrying __wrapped__ -- malt's
   own convert / do_not_convert wrappers included --, bound methods, functions
   sharing a code object), any number of threads, any interleaving of the
   reads and the (separately scheduled) writes, any history of requests from
   enabled and disabled contexts: a request made with AutoGraph enabled for a
   (function object, options) pair that has no context-independent reason to
   run as-is runs CONVERTED code -- whatever was requested before for OTHER
   function objects (a wrapper of it, the function it wraps, a function with
   the same code), from whatever context or thread.  The cache is read and
   written at the key computed by the GENERATED key function.
   Non-vacuity: with a key function that follows __wrapped__, a request for a
   do_not_convert-style wrapper (static reason: artifact) makes the later
   request for the plain function run unconverted. *)
From Coq Require Import List Arith Bool.
Import ListNotations.
Require Import MV.Cache.Machine MV.Cache.KeySrc MV.Cache.Allowlist MV.Generated.C10_gen MV.Cache.AllowlistProofs.

Theorem enabled_entity_requests_converted : forall (h : fheap) (static : akey -> bool) ls s,
  erun allowlist_key_chain h static allowlist_exits einit ls = Some s ->
  forall r c, In (r, c) (elog s) -> e_disabled r = false -> static (e_fn r, e_opt r) = false -> c = true.
Proof.
  intros h static. apply AllowlistProofs.enabled_entity_requests_converted; vm_compute; reflexivity.
Qed.
Print Assumptions enabled_entity_requests_converted.

Example unwrapping_key_breaks_it :
  exists h static ls s,
    erun [PFunc; PWrapped] h static allowlist_exits einit ls = Some s /\
    static (0, 0) = false /\ In (mkEReq 0 false 0 false, false) (elog s).
Proof.
  exists (fun f => mkF (if Nat.eqb f 1 then Some 0 else None) f).
  exists (fun k => Nat.eqb (fst k) 1).
  exists [EDecide 0 (mkEReq 1 false 0 false); ECommit 0; EDecide 0 (mkEReq 0 false 0 false)].
  eexists. split; [vm_compute; reflexivity|]. split; [reflexivity|]. vm_compute. left; reflexivity.
Qed.
