(* C10, per-run obligation on the generated key function of the allowlist cache
   (cache.UnboundInstanceCache._get_key, the cache behind
   conversion._ALLOWLIST_CACHE): the key of a callable is its function object
   (bound methods: their __func__) and nothing coarser -- for every heap of
   function objects (whatever __wrapped__ links they carry, whatever code
   objects they share) two callables get the same key iff they are the same
   function object.  Non-vacuity: a key function that also follows __wrapped__
   (or takes the code object) confuses two distinct function objects. *)
From Coq Require Import List Arith Bool.
Import ListNotations.
Require Import MV.Cache.Machine MV.Cache.KeySrc MV.Cache.Allowlist MV.Generated.C10_gen MV.Cache.AllowlistProofs.

Theorem allowlist_key_is_function_object :
  chain_ok allowlist_key_chain = true /\
  forall h f1 b1 f2 b2,
    entity_key allowlist_key_chain h f1 b1 = entity_key allowlist_key_chain h f2 b2 <-> f1 = f2.
Proof.
  assert (H : chain_ok allowlist_key_chain = true) by (vm_compute; reflexivity).
  split; [exact H|]. exact (chain_ok_injective _ H).
Qed.
Print Assumptions allowlist_key_is_function_object.

Example unwrapping_key_confuses_wrapper_and_wrapped :
  exists h, entity_key [PFunc; PWrapped] h 1 false = entity_key [PFunc; PWrapped] h 0 false.
Proof. exists (fun f => mkF (if Nat.eqb f 1 then Some 0 else None) f). vm_compute. reflexivity. Qed.

Example code_key_confuses_functions_sharing_code :
  exists h, entity_key [PFunc; PCode] h 1 false = entity_key [PFunc; PCode] h 0 false.
Proof. exists (fun f => mkF None 7). vm_compute. reflexivity. Qed.
