(* C10, per-run obligation recorded by the translator: the cache sub-key of a
   request (api.PyToPy.get_caching_key) and the options handed to callees
   (ConversionOptions.call_options, with as_tuple/__hash__/__eq__) are computed
   from their arguments only -- no module-level state is read or written -- so
   in the machine the key of a request is a function of (code class, options)
   and does not depend on the history (requests carry their key: LStart tid k e). *)
From Coq Require Import List Arith Bool.
Import ListNotations.
Require Import MV.Cache.Machine MV.Cache.KeySrc MV.Cache.Allowlist MV.Generated.C10_gen.

Theorem subkeys_pure : subkeys_pure = true /\
  forall p s tid k e s', step p s (LStart tid k e) = Some s' -> t_req (s_thr s' tid) = Some (k, e).
Proof.
  split; [reflexivity|]. intros p s tid k e s' H. simpl in H.
  destruct (t_req (s_thr s tid)); [discriminate|]. inversion H; subst; simpl.
  unfold upd. rewrite Nat.eqb_refl. reflexivity.
Qed.
Print Assumptions subkeys_pure.
