(* C10: the entry layer (api._convert_actual, the funnel of to_graph / convert
   wrappers / converted_call; GENERATED as entry_funnel) keeps no state of its
   own, hence in EVERY history of requests and in-place rebindings of function
   objects (__code__, __defaults__, __kwdefaults__, closure cells, globals) and
   every interleaving of the machine, each request is served the conversion of
   the code the object has AT REQUEST TIME under the requested options, bound
   to the environment it has AT REQUEST TIME: a function redefined or
   re-parametrised in place is never served what was made for it before. *)
From Coq Require Import List Arith Bool.
Import ListNotations.
Require Import MV.Cache.Machine MV.Cache.KeySrc MV.Cache.Allowlist MV.Cache.Entry MV.Generated.C10_gen
  MV.Cache.MachineProofs MV.Cache.EntryProofs MV.Cache.EntryCheck.

Theorem entry_coherent : funnel_ok entry_funnel = true /\
  forall proj h s, areach entry_funnel proj transform_function_prog h s ->
  forall fid o a f e, In ((fid, o, a), (f, e)) (a_out s) -> f_key f = (fa_code a, o) /\ e = fa_env a.
Proof.
  split; [vm_compute; reflexivity|].
  intros proj h s HR.
  apply (EntryProofs.entry_coherent transform_function_prog) with (proj := proj) (h := h) (fu := entry_funnel).
  - vm_compute; reflexivity.
  - vm_compute; reflexivity.
  - exact HR.
Qed.
Print Assumptions entry_coherent.

(* non-vacuity: a history with a rebinding between two requests for the same
   object and options is reachable, both requests are served, the second one
   from the NEW attributes *)
Lemma hrun_areach : forall fu p ops s, hrun fu p ops = Some s -> areach fu (fun o => o) p heap0 s.
Proof. intros fu p ops s E. unfold hrun in E. eapply arunv_areach; [apply areach_init | exact E]. Qed.

Example rebinding_history_served_current :
  exists s, areach FDirect (fun o => o) transform_function_prog heap0 s /\
    map hrow_of (a_out s) = [(0, 0, 2, 0, 2); (0, 0, 1, 0, 1)].
Proof.
  destruct (hrun FDirect transform_function_prog rebind_witness) as [s|] eqn:E.
  2: { exfalso. revert E. vm_compute. discriminate. }
  exists s. split.
  - exact (hrun_areach _ _ _ _ E).
  - change (match Some s with Some s0 => map hrow_of (a_out s0) | None => [] end = [(0, 0, 2, 0, 2); (0, 0, 1, 0, 1)]).
    rewrite <- E. vm_compute. reflexivity.
Qed.

(* the hypothesis matters: a funnel that remembers the instantiated function
   per (function object, options) serves the OLD code and environment after the
   rebinding -- on the same program, the same history *)
Example memo_funnel_serves_stale :
  hverdict (FMemo KeyEntity SubOptions) transform_function_prog rebind_witness = Some false /\
  hverdict FDirect transform_function_prog rebind_witness = Some true.
Proof. split; vm_compute; reflexivity. Qed.
