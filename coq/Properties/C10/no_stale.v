(* C10: a request on code class c under options o is served a factory made from
   c and o: a redefined function (fresh code class) can never be served the
   code of the old definition. *)
From Coq Require Import List Arith Bool.
Import ListNotations.
Require Import MV.Cache.Machine MV.Cache.KeySrc MV.Generated.C10_gen MV.Cache.MachineProofs.

Theorem no_stale : forall s, reach transform_function_prog s ->
  forall c o e f e', In ((c, o), e, f, e') (s_out s) -> fst (f_key f) = c /\ snd (f_key f) = o.
Proof. apply MachineProofs.no_stale. vm_compute; reflexivity. Qed.
Print Assumptions no_stale.
