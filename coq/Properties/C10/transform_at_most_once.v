(* C10: for any number of threads, any interleaving, any request history: the
   number of successful transformations of a key (code class, options) since
   the last collection of that code class -- not counting those of requests
   that failed with an exception -- never exceeds one.  Proved for every program
   obeying the discipline, instantiated with the generated one. *)
From Coq Require Import List Arith Bool.
Import ListNotations.
Require Import MV.Cache.Machine MV.Cache.KeySrc MV.Generated.C10_gen MV.Cache.MachineProofs.

Theorem transform_at_most_once :
  (forall p, double_checked p = true -> forall s, reach p s -> forall k, s_tcount s k <= 1)
  /\ (forall s, reach transform_function_prog s -> forall k, s_tcount s k <= 1).
Proof.
  split; [exact MachineProofs.transform_at_most_once|].
  apply MachineProofs.transform_at_most_once. vm_compute; reflexivity.
Qed.
Print Assumptions transform_at_most_once.
