(* C06, unguarded: if the edge-sensitive check `rd_sound_e` passes on the exported data of a program -- along the
   edge (n, m) node n contributes the definitions its instance followed by m really makes (a for header defines its
   targets only towards the loop body) and lets through what that instance does not rebind -- then for EVERY
   execution: when the instance of w binds x and no node instance strictly between w and r rebinds or deletes x,
   the definition (x, w) is in the reported in set of r (from which DEFINITIONS of the loads of x at r are read).
   No guard: covers zero-iteration loops and the exhausted evaluation of a for header.
   `rd_sound_e` is evaluated on every generated program of every run (code 7 of Flow/RdCheck.v): FALSE on the
   unrepaired implementation (known finding, reachdef_for_header_refuted.v), true with
   fixes/C07-for-header-edge-sensitive.diff.  (DEFINED_VARS_IN is aggregated from out sets: see
   reachdef_sound_events.v / defined_in_sound.v; definitions crossing function boundaries and `except .. as`
   names stay outside the graph.) *)
From Coq Require Import List Arith Bool.
Import ListNotations.
Require Import MV.Cfg.Skel MV.Cfg.SkelCheck MV.Cfg.SkelProofs.
Require Import MV.Flow.SetExpr MV.Flow.MayAnalysis MV.Flow.Dataflow MV.Flow.DataflowProofs.

Theorem reachdef_sound_events_edge : forall (E : list edge) (ns : list rnode) (f : fn),
  incl_edges (cfg_fn f) E = true -> rd_sound_e E ns (f_args f) (reach_fwd E (f_args f)) = true ->
  forall n d tr o d', exec_fn n f d = (tr, o, d') -> o <> OFuel -> top_ok f = true -> guard_block (f_body f) = true ->
  forall pre w mid r post x, tr = pre ++ w :: mid ++ r :: post -> r <> EXIT ->
    (In x (n_writes (find_node ns w)) \/ (In x (n_ftarget (find_node ns w)) /\ n_body (find_node ns w) = hd r mid)) ->
    (forall m nx, In (m, nx) (steps mid r) -> ~ dynw ditem (find_node ns) m nx x) ->
    memd (x, w) (n_in (find_node ns r)) = true.
Proof. exact reachdef_sound_events_edge_thm. Qed.
Print Assumptions reachdef_sound_events_edge.
