(* C06, on the exported data of a program (rows `ns` = per CFG node what reaching_definitions.py reported
   and what the node does to variables by Python's rules; E = the graph cfg.build returned): if the boolean
   check `rd_sound` passes (evaluated on every generated program of every run) then for EVERY execution:
   when the instance of node w binds x (assignment, parameter binding at the args node, `with ... as`, a for
   header) and no node instance strictly between w and r rebinds or deletes x, the definition (x, w) is in
   the reported in set of r -- from which DEFINITIONS of the Name loads of x at r are read -- and in the
   reported out set of the node executed right before r (from which DEFINED_VARS_IN is aggregated, see
   defined_in_sound.v).  Guard `~ exhausted` = known finding for-target-killed-on-exit-edge.
   PARTIAL with respect to the property text: definitions that cross a function boundary (a read inside a
   nested function of an enclosing variable, a nonlocal write by a called closure) and the name bound by
   `except E as name` are not nodes of this graph at all; the implementation attaches nothing for them
   (known findings reachdef-write-through-closure, reachdef-except-as-name-untracked; found by the oracle). *)
From Coq Require Import List Arith Bool.
Import ListNotations.
Require Import MV.Cfg.Skel MV.Cfg.SkelCheck MV.Cfg.SkelProofs.
Require Import MV.Flow.SetExpr MV.Flow.MayAnalysis MV.Flow.Dataflow MV.Flow.DataflowProofs.

Theorem reachdef_sound_events : forall (E : list edge) (ns : list rnode) (f : fn),
  incl_edges (cfg_fn f) E = true -> rd_sound E ns (f_args f) (reach_fwd E (f_args f)) = true ->
  forall n d tr o d', exec_fn n f d = (tr, o, d') -> o <> OFuel -> top_ok f = true -> guard_block (f_body f) = true ->
  forall pre w mid r post x, tr = pre ++ w :: mid ++ r :: post -> r <> EXIT -> lastd w mid <> EXIT ->
    (In x (n_writes (find_node ns w)) \/ In x (n_ftarget (find_node ns w))) ->
    (forall m nx, In (m, nx) (steps mid r) -> ~ dynw ditem (find_node ns) m nx x) ->
    (forall m nx, In (m, nx) (steps mid r) -> ~ exhausted ditem (find_node ns) m nx x) ->
    memd (x, w) (n_in (find_node ns r)) = true /\ memd (x, w) (n_out (find_node ns (lastd w mid))) = true.
Proof. exact reachdef_sound_events_thm. Qed.
Print Assumptions reachdef_sound_events.
