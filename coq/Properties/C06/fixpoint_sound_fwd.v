(* C06 (generic dataflow theory): any solution of the forward gen/kill inclusions
     sin m >= sout n for every edge (n, m),  sout n >= gen n,  sout n >= sin n \ kill n
   on a forward-closed node set R is sound along every path w -> mid... -> r of the graph: what w
   generates (its definition of x) and no node strictly in between kills is in sin r -- the last
   definition on any path into r reaches r -- and in sout of the node right before r. *)
From Coq Require Import List Arith Bool.
Import ListNotations.
Require Import MV.Cfg.Skel MV.Cfg.SkelProofs MV.Flow.MayAnalysis.

Theorem fixpoint_sound_fwd : forall (A : Type) (E : list edge) (R : label -> Prop)
    (gen kill sin sout : label -> A -> Prop),
  fwd_solution A E R gen kill sin sout ->
  forall mid w r x, R w -> gen w x -> chain E w (mid ++ [r]) -> (forall m, In m mid -> ~ kill m x) ->
  sin r x /\ sout (lastd w mid) x.
Proof. exact MayAnalysis.fixpoint_sound_fwd. Qed.
Print Assumptions fixpoint_sound_fwd.
