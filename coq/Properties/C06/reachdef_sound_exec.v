(* C06: composition with C05 (`exec_fn_is_path`).  For every function skeleton, every decision sequence
   and fuel: along the executed trace  ... w, mid, r ... , an item node w generates (its definition of a
   variable) that no node strictly between w and r kills is in the solution's in set of r and in the
   out set of the node executed right before r -- for ANY gen / kill and ANY solution of the inclusions
   on cfg_fn f whose node set contains the entry. *)
From Coq Require Import List Arith Bool.
Import ListNotations.
Require Import MV.Cfg.Skel MV.Cfg.SkelProofs MV.Flow.MayAnalysis.

Theorem reachdef_sound_exec : forall (A : Type) (gen kill sin sout : label -> A -> Prop) (R : label -> Prop)
    n f d tr o d',
  exec_fn n f d = (tr, o, d') -> o <> OFuel -> top_ok f = true -> guard_block (f_body f) = true ->
  fwd_solution A (cfg_fn f) R gen kill sin sout -> R (f_args f) ->
  forall pre w mid r post x,
    tr = pre ++ w :: mid ++ r :: post ->
    gen w x -> (forall m, In m mid -> ~ kill m x) ->
    sin r x /\ sout (lastd w mid) x.
Proof. exact MayAnalysis.reachdef_sound_exec. Qed.
Print Assumptions reachdef_sound_exec.
