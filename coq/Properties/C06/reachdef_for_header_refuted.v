(* C06, known finding for-target-killed-on-exit-edge: without the guard `~ exhausted` the event-level
   statement is false on the data the implementation reports for
       def f(a, b, c):
           if D(1):  x = T(2)
           else:     x = T(3)
           for x in L(4):  pass
           return T(5, x)
   (names a b c D T x L = 1..7).  Decisions [1; 0]: trace args, test, x = T(2) (node 3), for header (5), return (7).
   The value of x read by the return was bound by node 3 and nothing rebinds it, yet (x, 3) is not among the
   reported definitions reaching the return: the header node lists its target as modified and so kills the
   incoming definitions on the exit edge as well (only its own definition (x, 5) is reported). *)
From Coq Require Import List Arith Bool.
Import ListNotations.
Require Import MV.Cfg.Skel MV.Cfg.SkelCheck MV.Cfg.SkelProofs.
Require Import MV.Flow.SetExpr MV.Flow.MayAnalysis MV.Flow.Dataflow MV.Flow.DataflowProofs MV.Flow.RdCheck.

Definition w_f : fn :=
  mkfn 1 (BCons (SIf 2 (BCons (SSimple 3) BNil) (BCons (SSimple 4) BNil))
         (BCons (SLoop 5 (BCons (SSimple 6) BNil) BNil) (BCons (SReturn 7) BNil))).
Definition w_E : list edge := [(1, 2); (2, 3); (2, 4); (3, 5); (4, 5); (5, 6); (5, 7); (6, 5); (7, 0)].
Definition w_ns : list rnode :=
 [(mknode 1 true (mkscope [] [] [1; 2; 3] [] [] [] [] [1; 2; 3] []) [] [] [] [] [1; 2; 3] [] [] [(1, 1); (2, 1); (3, 1)] [] [1; 2; 3] [] [] 0 0);
  (mknode 2 true (mkscope [4] [] [] [] [] [] [] [] []) [] [] [] [] [] [] [(1, 1); (2, 1); (3, 1)] [(1, 1); (2, 1); (3, 1)] [4] [] [] [] 0 0);
  (mknode 3 true (mkscope [5] [6] [6] [] [] [] [] [] []) [] [] [] [] [6] [] [(1, 1); (2, 1); (3, 1)] [(1, 1); (2, 1); (3, 1); (6, 3)] [5] [6] [] [] 0 0);
  (mknode 4 true (mkscope [5] [6] [6] [] [] [] [] [] []) [] [] [] [] [6] [] [(1, 1); (2, 1); (3, 1)] [(1, 1); (2, 1); (3, 1); (6, 4)] [5] [6] [] [] 0 0);
  (mknode 5 true (mkscope [7] [6] [6] [] [] [] [] [] []) [] [] [] [] [6] [] [(1, 1); (2, 1); (3, 1); (6, 3); (6, 4); (6, 5)] [(1, 1); (2, 1); (3, 1); (6, 5)] [7] [] [] [6] 6 6);
  (mknode 6 false empty_scope [] [] [] [] [] [] [(1, 1); (2, 1); (3, 1); (6, 5)] [(1, 1); (2, 1); (3, 1); (6, 5)] [] [] [] [] 0 0);
  (mknode 7 true (mkscope [5; 6] [] [] [] [] [] [] [] []) [] [] [] [] [] [] [(1, 1); (2, 1); (3, 1); (6, 5)] [(1, 1); (2, 1); (3, 1); (6, 5)] [5; 6] [] [] [] 0 0)].

Theorem reachdef_for_header_refuted :
  exists (E : list edge) (ns : list rnode) (f : fn) n d tr o d' pre w mid r post x,
    incl_edges (cfg_fn f) E = true /\ rd_fix rd_table E ns (reach_fwd E (f_args f)) = true /\
    rd_sound E ns (f_args f) (reach_fwd E (f_args f)) = true /\
    exec_fn n f d = (tr, o, d') /\ o <> OFuel /\ top_ok f = true /\ guard_block (f_body f) = true /\
    tr = pre ++ w :: mid ++ r :: post /\ In x (n_writes (find_node ns w)) /\
    (forall m nx, In (m, nx) (steps mid r) -> ~ dynw ditem (find_node ns) m nx x) /\
    ~ (forall m nx, In (m, nx) (steps mid r) -> ~ exhausted ditem (find_node ns) m nx x) /\
    memd (x, w) (n_in (find_node ns r)) = false.
Proof.
  exists w_E, w_ns, w_f, 20, [1; 0], [1; 2; 3; 5; 7], ORet, [], [1; 2], 3, [5], 7, [], 6.
  split; [vm_compute; reflexivity|]. split; [vm_compute; reflexivity|]. split; [vm_compute; reflexivity|].
  split; [vm_compute; reflexivity|]. split; [discriminate|]. split; [vm_compute; reflexivity|].
  split; [vm_compute; reflexivity|]. split; [reflexivity|].
  split; [vm_compute; auto|]. split; [|split; [|vm_compute; reflexivity]].
  - intros m nx [Hq|[]]. injection Hq as <- <-. unfold dynw. vm_compute.
    intros [[]|[[]|[_ Hb]]]. discriminate Hb.
  - intros G. apply (G 5 7); [left; reflexivity|]. unfold exhausted. vm_compute. split; [auto | discriminate].
Qed.
Print Assumptions reachdef_for_header_refuted.
