(* C06: the transfer equations GENERATED from reaching_definitions.Analyzer.visit_node
   (Generated/C06_gen.v) are of gen/kill form: out contains the node's own definitions, and every incoming
   definition of a variable the node neither modifies nor deletes; the node defines every name it binds
   and does not delete, and every parameter; in is the join over the predecessors' out sets; a node is
   revisited when its out set changed; Name loads read the in set, stores the out set.  Re-checked against whatever was generated. *)
From Coq Require Import List Arith Bool.
Import ListNotations.
Require Import MV.Flow.SetExpr MV.Flow.SetExprProofs MV.Flow.Dataflow MV.Generated.C06_gen.

Theorem reachdef_transfer_sound : forall (e : env ditem) (a : ditem) (en : env name) (x : name),
  e_ann ditem e = true -> e_ann name en = true ->
  (e_genmap ditem e a = true -> ev ditem fst rd_scoped_out e a = true) /\
  (e_state ditem e a = true -> memn (fst a) (s_modified (e_scope ditem e)) = false ->
   memn (fst a) (s_deleted (e_scope ditem e)) = false -> ev ditem fst rd_scoped_out e a = true) /\
  (e_state ditem e a = true -> ev ditem fst rd_ignored_out e a = true /\ ev ditem fst rd_scoped_in e a = true
                               /\ ev ditem fst rd_ignored_in e a = true) /\
  (memn x (s_bound (e_scope name en)) = true -> memn x (s_deleted (e_scope name en)) = false ->
   ev name (fun y => y) rd_gen_names en x = true) /\
  (memn x (s_params (e_scope name en)) = true -> ev name (fun y => y) rd_gen_names en x = true) /\
  rd_join_over_prev = true /\ rd_join_reads_out = true /\ rd_changed_compares_out = true /\ rd_name_load_reads_in = true /\
  (* with the edge-sensitive join the successors of a for header also depend on its in set *)
  (rd_edge_sensitive = true -> rd_changed_compares_in = true).
Proof.
  intros e a en x Ea Ean.
  assert (G : covg true rd_scoped_out = true) by (vm_compute; reflexivity).
  assert (P : passes true rd_scoped_out [FModified; FDeleted] = true) by (vm_compute; reflexivity).
  assert (P2 : passes true rd_ignored_out [] = true) by (vm_compute; reflexivity).
  assert (P3 : passes true rd_scoped_in [] = true) by (vm_compute; reflexivity).
  assert (P4 : passes true rd_ignored_in [] = true) by (vm_compute; reflexivity).
  assert (C1 : cov true rd_gen_names FBound [FDeleted] = true) by (vm_compute; reflexivity).
  assert (C2 : cov true rd_gen_names FParams [] = true) by (vm_compute; reflexivity).
  assert (L : rd_edge_sensitive = true -> rd_changed_compares_in = true)
    by (vm_compute; intros H; first [discriminate H | reflexivity]).
  repeat split; try exact L.
  - intros M. apply (covg_sound ditem fst _ _ _ _ G Ea M).
  - intros S M D. apply (passes_sound ditem fst _ _ _ _ _ P Ea S). intros g [<-|[<-|[]]]; assumption.
  - apply (passes_sound ditem fst _ _ _ _ _ P2 Ea H). apply off_nil.
  - apply (passes_sound ditem fst _ _ _ _ _ P3 Ea H). apply off_nil.
  - apply (passes_sound ditem fst _ _ _ _ _ P4 Ea H). apply off_nil.
  - intros M D. apply (cov_sound name (fun y => y) _ _ _ _ _ _ C1 Ean M). intros g [<-|[]]. exact D.
  - intros M. apply (cov_sound name (fun y => y) _ _ _ _ _ _ C2 Ean M). apply off_nil.
Qed.
Print Assumptions reachdef_transfer_sound.
