(* C06, defined-on-entry: when DEFINED_VARS_IN of a compound statement is what the node-level solution
   implies (check rd_danno_ok, evaluated on every generated program), then a definition of x that is in the
   out set of a node p outside the statement from which control enters it (edge p -> r, r inside) puts x
   into DEFINED_VARS_IN.  With reachdef_sound_events (second conjunct: the last binding of x is in out of
   the node executed right before r) this gives: every local bound when an if / for / while / try is entered
   is in its defined-on-entry set. *)
From Coq Require Import List Arith Bool.
Import ListNotations.
Require Import MV.Cfg.Skel MV.Flow.SetExpr MV.Flow.Dataflow MV.Flow.DataflowProofs.

Theorem defined_in_sound : forall (E : list edge) (ns : list rnode) (a : danno) p r x w,
  rd_danno_ok E ns a = true -> In (p, r) E ->
  memn r (da_inside a) = true -> memn p (da_inside a) = false ->
  memd (x, w) (n_out (find_node ns p)) = true -> memn x (da_defined a) = true.
Proof. exact defined_in_from_out. Qed.
Print Assumptions defined_in_sound.
