(* C05: the statements executed by any call form a path of the control-flow graph, from the
   entry node, ending in an exit node (normal completion, return, or an explicit raise that
   leaves the function) -- for every function skeleton, every decision sequence (branch
   outcomes, loop trip counts, which handler catches each raise), any amount of fuel.
   Jumps by break / continue / return run through the enclosing finally bodies; an explicit
   raise goes to a handler of an enclosing try.  OEscaped = the exception left a try that has
   a finally clause: the property makes no claim beyond the raise node, and neither do we.
   No guard: jumps written in an except body of a try statement that has a finally clause run
   through that finally body too (this was the defect cfg-jump-in-handler-of-try-finally, repaired
   in /repo; see cfg_handler_jump_regression.v). *)
From Coq Require Import List Arith Bool.
Import ListNotations.
Require Import MV.Cfg.Skel MV.Cfg.SkelProofs.

Theorem cfg_contains_executions : forall (n : nat) (f : fn) (d : decisions) tr o d',
  exec_fn n f d = (tr, o, d') -> o <> OFuel ->
  top_ok f = true ->
  exists r, tr = f_args f :: r /\ chain (cfg_fn f) (f_args f) r /\
    match o with
    | ONormal | ORet | ORaised => In (lastd (f_args f) r, EXIT) (cfg_fn f)
    | OEscaped => True
    | _ => False
    end.
Proof. exact exec_fn_is_path_unguarded. Qed.

(* non-vacuity: a loop with a try/finally whose body breaks, continues and returns *)
Definition ex_f : fn :=
  mkfn 1 (BCons (SLoop 2 (BCons (STry (SIf 3 (BCons (SBreak 4) BNil) (BCons (SIf 5 (BCons (SContinue 6) BNil) (BCons (SReturn 7) BNil)) BNil))
                                   BNil (HCons (BCons (SSimple 8) BNil) HNil) BNil (BCons (SSimple 9) BNil)) BNil) BNil)
         (BCons (SSimple 10) BNil)).
Example ex_guard : top_ok ex_f = true.
Proof. vm_compute; reflexivity. Qed.
Example ex_run : exec_fn 50 ex_f [1; 0; 1; 1; 1] = ([1; 2; 3; 5; 6; 9; 2; 3; 4; 9; 10], ONormal, []).
Proof. vm_compute; reflexivity. Qed.
Print Assumptions cfg_contains_executions.
