(* C05: successor and predecessor links of the model graph mirror each other (the graph is an edge
   relation; next / prev are its two projections). *)
From Coq Require Import List Arith Bool.
Import ListNotations.
Require Import MV.Cfg.Skel MV.Cfg.SkelProofs.

Definition next_of (E : list edge) (n : label) : list label := map snd (filter (fun e => Nat.eqb (fst e) n) E).
Definition prev_of (E : list edge) (m : label) : list label := map fst (filter (fun e => Nat.eqb (snd e) m) E).

Theorem cfg_wf : forall (f : fn) (n m : label),
  In m (next_of (cfg_fn f) n) <-> In n (prev_of (cfg_fn f) m).
Proof.
  intros f n m. unfold next_of, prev_of. rewrite !in_map_iff. split.
  - intros [[a b] [Hb Hin]]. simpl in Hb; subst b. apply filter_In in Hin. destruct Hin as [Hin Ha].
    simpl in Ha. apply Nat.eqb_eq in Ha; subst a.
    exists (n, m). split; [reflexivity|]. apply filter_In. split; [exact Hin | simpl; apply Nat.eqb_refl].
  - intros [[a b] [Ha Hin]]. simpl in Ha; subst a. apply filter_In in Hin. destruct Hin as [Hin Hb].
    simpl in Hb. apply Nat.eqb_eq in Hb; subst b.
    exists (n, m). split; [reflexivity|]. apply filter_In. split; [exact Hin | simpl; apply Nat.eqb_refl].
Qed.
Print Assumptions cfg_wf.
