(* C05, known finding: without the guard the statement is false on the faithful model.
   try: raise E / except E: return / finally: stmt  -- the executed trace
   args, raise, return, finally-body is not a path: cfg.py wires a return written in an except
   body past the finally clause of its own try (the same holds for break and continue). *)
From Coq Require Import List Arith Bool.
Import ListNotations.
Require Import MV.Cfg.Skel MV.Cfg.SkelProofs.

Definition w_f : fn :=
  mkfn 1 (BCons (STry (SRaise 2) BNil (HCons (BCons (SReturn 3) BNil) HNil) BNil (BCons (SSimple 4) BNil)) BNil).

Theorem cfg_handler_jump_refuted :
  exists (f : fn) (d : decisions) tr o d',
    exec_fn 10 f d = (tr, o, d') /\ o <> OFuel /\ top_ok f = true /\ guard_block (f_body f) = false /\
    ~ (exists r, tr = f_args f :: r /\ chain (cfg_fn f) (f_args f) r).
Proof.
  exists w_f, [1], [1; 2; 3; 4], ORet, [].
  split; [vm_compute; reflexivity|]. split; [discriminate|]. split; [vm_compute; reflexivity|].
  split; [vm_compute; reflexivity|].
  intros [r [Hr C]]. injection Hr as <-. vm_compute in C.
  destruct C as [_ [_ [C _]]]. repeat (destruct C as [C|C]; [discriminate C|]). exact C.
Qed.
Print Assumptions cfg_handler_jump_refuted.
