(* C05, repaired defect kept as a regression witness: a return (break, continue) written in an except
   body of a try statement with a finally clause.  Before the repair of cfg.py (visit_Try popped the
   lexical scope before visiting the handlers) the executed trace args, raise, return, finally-body was
   not a path of the graph; the model now requires the edge return -> finally-body, and the sub-graph tie
   checks on every run that cfg.build has it. *)
From Coq Require Import List Arith Bool.
Import ListNotations.
Require Import MV.Cfg.Skel MV.Cfg.SkelProofs.

Definition w_f : fn :=
  mkfn 1 (BCons (STry (SRaise 2) BNil (HCons (BCons (SReturn 3) BNil) HNil) BNil (BCons (SSimple 4) BNil)) BNil).

Theorem cfg_handler_jump_regression :
  exec_fn 10 w_f [1] = ([1; 2; 3; 4], ORet, []) /\
  chain (cfg_fn w_f) 1 [2; 3; 4] /\ In (3, 4) (cfg_fn w_f) /\ In (4, EXIT) (cfg_fn w_f).
Proof. vm_compute. repeat split; auto 20. Qed.
Print Assumptions cfg_handler_jump_regression.
