(* C16: per-run side conditions on the tables generated from ag_ctx.py, function_wrappers.py,
   converters/functions.py and api.py: ControlStatusCtx pushes itself / pops after the identity
   check; FunctionScope creates, enters and exits its ENABLED context under the single guard
   options.user_requested; every wrapper calls the wrapped function exactly once directly inside
   the expected with-item; internal_convert dispatches on the status as documented; the code generator creates the
   function scope of an entity's top-level function with the requested options and that of every nested
   function definition with options that are not user requested (scope_options_ok); the stack
   lives in threading.local storage reached only through _control_ctx(). *)
From Coq Require Import List Bool.
Import ListNotations.
Require Import MV.Ctx.CtxSyntax MV.Ctx.Stack MV.Ctx.StackSpec MV.Generated.C16_gen.

Theorem tables_ok_current :
  tables_ok gen_tables = true /\ balance_tables_ok gen_tables = true /\ t_thread_local gen_tables = true.
Proof. vm_compute. repeat split; reflexivity. Qed.
Print Assumptions tables_ok_current.
