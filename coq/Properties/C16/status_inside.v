(* C16: every observation made directly in the body of a function
     - wrapped by do_not_convert                                  reports DISABLED,
     - wrapped by call_with_unspecified_conversion_status         reports UNSPECIFIED,
     - called inside `with ctx:`                                  sees that very object,
     - running converted under user_requested options             reports ENABLED
       (and a convertible function called through convert(user_requested=True) where the
        effective status is not DISABLED, through internal_convert(user_requested=True) with an
        ENABLED context or an UNSPECIFIED one and convert_by_default, through to_graph, or inside
        FunctionScope/with_function_scope with user_requested options, does run that way),
     - wrapped by internal_convert with a DISABLED context         reports DISABLED,
   at every position (before the first child, after each child whether it returned or raised).
   Stacked decorators (a wrapper applied to another wrapper's result, to an inner function handed out by
   converted code or to a function marked with autograph_artifact -- `Wrap`):
     - a call that enters no context (plain / artifact / convert() with NullCtx that does not convert /
       FunctionScope without user_requested) reports the status of its call site,
     - convert() with NullCtx called where the status is DISABLED does not run a user-requested conversion,
     - directly under a do_not_convert (unspecified-status) wrapper the call-site status is DISABLED (UNSPECIFIED);
   together (status_inside_stacked_do_not_convert): do_not_convert applied to an artifact or to a convert()
   wrapper reports DISABLED inside.
   Inner functions of converted code (KNested / KNestedG: a def nested in an entity converted by convert() /
   to_graph() with any user_requested / recursive flags, handed out as closure or callback and called from
   anywhere): the call enters no context, the function reports the status of its call site -- DISABLED when it is
   called back from inside a do_not_convert region or wrapped by do_not_convert (status_inside_nested_function).
   This rests on the side condition scope_options_ok of tables_ok: the code generator
   (converters/functions.py _function_scope_options) gives user-requested options to the top-level function of
   an entity only. *)
From Coq Require Import List Bool.
Import ListNotations.
Require Import MV.Ctx.CtxSyntax MV.Ctx.Stack MV.Ctx.StackSpec MV.Ctx.StackProofs MV.Generated.C16_gen.

Theorem status_inside : forall T, tables_ok T = true -> forall t st, tr st = [] ->
  forall o, In o (trace (snd (exec T t st))) ->
    (ob_kind o = KDoNotConvert -> cst (ob_top o) = Disabled)
    /\ (ob_kind o = KUnspec -> cst (ob_top o) = Unspecified)
    /\ (forall c, ob_kind o = KWith c -> ob_arg o = Some (ob_top o))
    /\ (forall c cbd ur, ob_kind o = KInternal c cbd ur -> eff_status (ob_arg o) (ob_call_status o) = Disabled ->
          cst (ob_top o) = Disabled)
    /\ (user_converted (ob_kind o) (ob_dyn o) (ob_arg o) (ob_call_status o) -> cst (ob_top o) = Enabled)
    /\ (ob_urconv o = true -> cst (ob_top o) = Enabled)
    /\ (enters_nothing (ob_kind o) (ob_urconv o) -> cst (ob_top o) = ob_call_status o)
    /\ (forall ur rc, ob_kind o = KConvert ur rc MNull -> ob_call_status o = Disabled -> ob_urconv o = false)
    /\ (forall pre l s, ob_outer o = pre ++ [l] -> layer_status l = Some s -> ob_call_status o = s).
Proof.
  intros T H t st Htr o Hin.
  destruct (status_inside_all T H t st Htr o Hin) as [A [B [C [D [_ [E [F [G [I J]]]]]]]]].
  repeat split; auto.
Qed.

Theorem status_inside_stacked_do_not_convert : forall T, tables_ok T = true -> forall t st, tr st = [] ->
  forall o pre, In o (trace (snd (exec T t st))) -> ob_outer o = pre ++ [KDoNotConvert] ->
    (ob_kind o = KArtifact \/ ob_kind o = KPlain \/ (exists ur rc, ob_kind o = KConvert ur rc MNull)
     \/ (exists ur rc, ob_kind o = KNested ur rc) \/ (exists rc, ob_kind o = KNestedG rc)) ->
    cst (ob_top o) = Disabled.
Proof.
  intros T H t st Htr o pre Hin Ho Hk.
  destruct (status_inside T H t st Htr o Hin) as [_ [_ [_ [_ [_ [_ [G [I J]]]]]]]].
  assert (Hcs : ob_call_status o = Disabled) by (eapply J; [exact Ho | reflexivity]).
  rewrite <- Hcs. apply G.
  destruct Hk as [E|[E|[[ur [rc E]]|[[ur [rc E]]|[rc E]]]]]; rewrite E; simpl; auto.
  eapply I; eauto.
Qed.

Theorem status_inside_nested_function : forall T, tables_ok T = true -> forall t st, tr st = [] ->
  forall o, In o (trace (snd (exec T t st))) ->
    ((exists ur rc, ob_kind o = KNested ur rc) \/ (exists rc, ob_kind o = KNestedG rc)) ->
    cst (ob_top o) = ob_call_status o
    /\ (forall pre, ob_outer o = pre ++ [KDoNotConvert] -> cst (ob_top o) = Disabled).
Proof.
  intros T H t st Htr o Hin Hk. split.
  - destruct (status_inside T H t st Htr o Hin) as [_ [_ [_ [_ [_ [_ [G _]]]]]]].
    apply G. destruct Hk as [[ur [rc E]]|[rc E]]; rewrite E; exact Logic.I.
  - intros pre Ho. apply (status_inside_stacked_do_not_convert T H t st Htr o pre Hin Ho).
    destruct Hk as [E|E]; auto.
Qed.

Theorem status_inside_current_source : forall t o,
  In o (trace (snd (exec gen_tables t (init_state gen_tables)))) ->
    (ob_kind o = KDoNotConvert -> cst (ob_top o) = Disabled)
    /\ (user_converted (ob_kind o) (ob_dyn o) (ob_arg o) (ob_call_status o) -> cst (ob_top o) = Enabled).
Proof.
  intros t o Hin.
  assert (H : tables_ok gen_tables = true) by (vm_compute; reflexivity).
  destruct (status_inside gen_tables H t (init_state gen_tables) eq_refl o Hin) as [A [_ [_ [_ [E _]]]]].
  split; assumption.
Qed.
(* non-vacuity: @do_not_convert stacked on @convert(): DISABLED inside, the function is not converted *)
Example status_inside_stacked_nonvacuous :
  let t := Wrap KDoNotConvert (Node 1 (KConvert true true MNull) false false None []) in
  map (fun o => (cst (ob_top o), ob_urconv o, ob_outer o)) (trace (snd (exec gen_tables t (init_state gen_tables))))
  = [(Disabled, false, [KDoNotConvert])].
Proof. vm_compute. reflexivity. Qed.
(* non-vacuity: a non-recursive user-requested conversion whose function calls a do_not_convert'ed function that
   calls back an inner function of a converted entity: ENABLED, DISABLED in the region, DISABLED in the callback
   (one context object for the region and the callback), the same in a recursive conversion and for to_graph *)
Example status_inside_nested_nonvacuous :
  forall k, In k [KNested true false; KNested true true; KNested false false; KNestedG false; KNestedG true] ->
  let t := Node 1 (KConvert true false MNull) false false None
             [Node 2 KDoNotConvert false false None [Node 3 k false false None []]] in
  map (fun o => (ob_lbl o, cst (ob_top o), cid (ob_top o))) (trace (snd (exec gen_tables t (init_state gen_tables))))
  = [(1, Enabled, 4); (2, Disabled, 5); (3, Disabled, 5); (2, Disabled, 5); (1, Enabled, 4)].
Proof. intros k Hk. simpl in Hk. repeat (destruct Hk as [<-|Hk]; [vm_compute; reflexivity|]). contradiction. Qed.
Print Assumptions status_inside.
Print Assumptions status_inside_nested_function.
Print Assumptions status_inside_stacked_do_not_convert.
Print Assumptions status_inside_current_source.
