(* C16: every observation made directly in the body of a function
     - wrapped by do_not_convert                                  reports DISABLED,
     - wrapped by call_with_unspecified_conversion_status         reports UNSPECIFIED,
     - called inside `with ctx:`                                  sees that very object,
     - running converted under user_requested options             reports ENABLED
       (and a convertible function called through convert(user_requested=True) where the
        effective status is not DISABLED, through internal_convert(user_requested=True) with an
        ENABLED context or an UNSPECIFIED one and convert_by_default, through to_graph, or inside
        FunctionScope/with_function_scope with user_requested options, does run that way),
     - wrapped by internal_convert with a DISABLED context         reports DISABLED,
   at every position (before the first child, after each child whether it returned or raised). *)
From Coq Require Import List Bool.
Import ListNotations.
Require Import MV.Ctx.CtxSyntax MV.Ctx.Stack MV.Ctx.StackSpec MV.Ctx.StackProofs MV.Generated.C16_gen.

Theorem status_inside : forall T, tables_ok T = true -> forall t st, tr st = [] ->
  forall o, In o (trace (snd (exec T t st))) ->
    (ob_kind o = KDoNotConvert -> cst (ob_top o) = Disabled)
    /\ (ob_kind o = KUnspec -> cst (ob_top o) = Unspecified)
    /\ (forall c, ob_kind o = KWith c -> ob_arg o = Some (ob_top o))
    /\ (forall c cbd ur, ob_kind o = KInternal c cbd ur -> eff_status (ob_arg o) (ob_call_status o) = Disabled ->
          cst (ob_top o) = Disabled)
    /\ (user_converted (ob_kind o) (ob_dyn o) (ob_arg o) (ob_call_status o) -> cst (ob_top o) = Enabled)
    /\ (ob_urconv o = true -> cst (ob_top o) = Enabled).
Proof.
  intros T H t st Htr o Hin. destruct (status_inside_all T H t st Htr o Hin) as [A [B [C [D [_ [E F]]]]]].
  repeat split; auto.
Qed.

Theorem status_inside_current_source : forall t o,
  In o (trace (snd (exec gen_tables t (init_state gen_tables)))) ->
    (ob_kind o = KDoNotConvert -> cst (ob_top o) = Disabled)
    /\ (user_converted (ob_kind o) (ob_dyn o) (ob_arg o) (ob_call_status o) -> cst (ob_top o) = Enabled).
Proof.
  intros t o Hin.
  assert (H : tables_ok gen_tables = true) by (vm_compute; reflexivity).
  destruct (status_inside gen_tables H t (init_state gen_tables) eq_refl o Hin) as [A [_ [_ [_ [E _]]]]].
  split; assumption.
Qed.
Print Assumptions status_inside.
Print Assumptions status_inside_current_source.
