(* C16: in no call tree does the identity assertion of ControlStatusCtx.__exit__ fail, is an empty
   stack popped, or is FunctionScope's context attribute missing (the model's `bad` flag). *)
From Coq Require Import List Bool.
Import ListNotations.
Require Import MV.Ctx.CtxSyntax MV.Ctx.Stack MV.Ctx.StackSpec MV.Ctx.StackProofs MV.Generated.C16_gen.

Theorem exit_assert_never_fires : forall T, balance_tables_ok T = true ->
  forall t st, bad (snd (exec T t st)) = bad st.
Proof. intros T H t st. exact (proj2 (balanced T H t st)). Qed.
Print Assumptions exit_assert_never_fires.
