(* C16: for EVERY call tree (any mix of plain calls, do_not_convert, unspecified-status wrapper,
   with-blocks on fresh / already entered / shared context objects, convert() with any flags and
   conversion_ctx, internal_convert, FunctionScope, with_function_scope, to_graph, inner functions
   (nested defs) of entities converted with any options, called back from anywhere; dynamic or
   convertible functions; an exception raised at any position of any node and swallowed at any
   ancestor or not at all) and every initial state, after the call -- whether it returned or
   raised -- the thread's context stack is the very same list of objects as before, so
   control_status_ctx() is the same object.  Holds for every table satisfying the decidable
   discipline (whatever with/try skeleton the wrappers have), hence for the current source. *)
From Coq Require Import List Bool.
Import ListNotations.
Require Import MV.Ctx.CtxSyntax MV.Ctx.Stack MV.Ctx.StackSpec MV.Ctx.StackProofs MV.Generated.C16_gen.

Theorem ctx_balanced : forall T, balance_tables_ok T = true ->
  forall (t : tree) (st : state) (o : outcome) (st' : state), exec T t st = (o, st') ->
  stk st' = stk st /\ top_of (stk st') = top_of (stk st).
Proof.
  intros T H t st o st' E. destruct (balanced T H t st) as [A _]. rewrite E in A. simpl in A.
  split; [exact A | rewrite A; reflexivity].
Qed.

Theorem ctx_balanced_current_source : forall t st o st', exec gen_tables t st = (o, st') ->
  stk st' = stk st /\ top_of (stk st') = top_of (stk st).
Proof. apply ctx_balanced. vm_compute. reflexivity. Qed.

(* non-vacuity: a user-requested conversion inside which a do_not_convert'ed callee raises, the
   exception is swallowed one level up, then the converted function itself raises *)
Example ctx_balanced_nonvacuous :
  let t := Node 1 (KConvert true true MNull) false true (Some 1)
             [Node 2 KDoNotConvert false false (Some 0) []] in
  let r := exec gen_tables t (init_state gen_tables) in
  fst r = ORaise /\ stk (snd r) = stk (init_state gen_tables)
  /\ map (fun o => (ob_lbl o, cst (ob_top o), ob_depth o)) (trace (snd r))
     = [(1, Enabled, 2); (2, Disabled, 3); (1, Enabled, 2)].
Proof. vm_compute. repeat split; reflexivity. Qed.
Print Assumptions ctx_balanced.
Print Assumptions ctx_balanced_current_source.
