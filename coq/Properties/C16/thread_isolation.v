(* C16: threads.  Each thread's program is the event log of its own call tree (pushes,
   identity-checked pops, observations together with the object they saw).  With thread-local
   storage (as extracted from ag_ctx.py) and for ANY schedule interleaving the threads' events:
   no step is ever stuck -- every pop removes the object the thread itself pushed and every
   observation sees exactly the object the thread sees when running alone -- and each thread's
   remaining program still leads back to the stack it started with.  `isolation` is the general
   statement for arbitrary per-thread programs. *)
From Coq Require Import List Bool.
Import ListNotations.
Require Import MV.Ctx.CtxSyntax MV.Ctx.Stack MV.Ctx.StackSpec MV.Ctx.StackProofs MV.Ctx.Threads
               MV.Ctx.ThreadsProofs MV.Generated.C16_gen.

Theorem thread_isolation : forall sched (ps : progs) (cs : cells) (fin : nat -> stack),
  (forall t, replay (ps t) (cs t) = Some (fin t)) ->
  exists ps' cs', run true sched ps cs = Some (ps', cs')
    /\ (forall t, replay (ps' t) (cs' t) = Some (fin t))
    /\ (forall t, ~ In t sched -> ps' t = ps t /\ cs' t = cs t).
Proof. exact isolation. Qed.

Theorem thread_isolation_trees : forall (trees : nat -> tree) (sts : nat -> state) sched,
  exists ps' cs',
    run (t_thread_local gen_tables) sched (fun t => prog_of gen_tables (trees t) (sts t)) (fun t => stk (sts t))
      = Some (ps', cs')
    /\ forall t, replay (ps' t) (cs' t) = Some (stk (sts t)).
Proof. apply threads_isolated; vm_compute; reflexivity. Qed.

(* non-vacuity: the same machine with one shared stack does get stuck *)
Example thread_isolation_nonvacuous :
  let c1 := mkctx 4 Disabled in let c2 := mkctx 5 Enabled in
  let o := mkobs 1 0 KDoNotConvert false [] None Unspecified false c1 2 in
  let ps := fun t => match t with 0 => [EvPush c1; EvObs o; EvPop c1] | 1 => [EvPush c2; EvPop c2] | _ => [] end in
  let cs := fun _ : nat => [mkctx 0 Unspecified] in
  run false [0; 1; 0] ps cs = None /\ (exists r, run true [0; 1; 0] ps cs = Some r).
Proof. exact shared_stack_interferes. Qed.
Print Assumptions thread_isolation.
Print Assumptions thread_isolation_trees.
