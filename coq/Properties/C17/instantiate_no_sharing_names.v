(* C17 (full): when every `arg` placeholder receives names (strings / Name
   nodes -- the decidable discipline `arg_discipline`), a template with distinct
   identities instantiates to trees with distinct identities, each either a
   template node or fresh: nothing is shared with any replacement value. *)
From Coq Require Import List.
Require Import MV.Tmpl.Tree MV.Tmpl.Replace MV.Tmpl.ReplaceProofs.

Theorem instantiate_no_sharing_names : forall (T : table) (R : repls) (t : tree) (n : nat),
  arg_discipline R t = true -> NoDup (ids t) -> (forall i, In i (ids t) -> i < n) ->
  NoDup (ids_of_list (fst (inst T R n t))) /\
  forall i, In i (ids_of_list (fst (inst T R n t))) -> In i (ids t) \/ n <= i.
Proof. exact inst_no_sharing_names. Qed.
Print Assumptions instantiate_no_sharing_names.
