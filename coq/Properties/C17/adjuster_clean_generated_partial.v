(* C17 (re-proved on every run over the table GENERATED from ContextAdjuster's
   current source): every AST class except NamedExpr and Starred has a locally
   correct handler under every override it can be visited with.  Partial: the
   two pinned exceptions are (a) NamedExpr -- known finding C17-namedexpr-ctx,
   gone once fixes/C17-namedexpr-ctx.diff is applied (the list stays an upper
   bound) -- and (b) Starred, whose own ctx ContextAdjuster never adjusts
   (latent: no converter moves a Starred between Load and Store positions). *)
From Coq Require Import List.
Import ListNotations.
Require Import MV.Tmpl.Tree MV.Tmpl.Replace MV.Tmpl.ReplaceProofs MV.Generated.C17_gen.

Theorem adjuster_clean_generated_partial :
  forall k o, k <> KNamedExpr -> k <> KStarred -> In o (ovr_states k) -> kind_ok adj_table k o = true.
Proof.
  intros k o H1 H2 Ho.
  apply (table_clean_kind_ok adj_table [KNamedExpr; KStarred]); [vm_compute; reflexivity | | exact Ho].
  destruct (mem_kind k [KNamedExpr; KStarred]) eqn:E; [|reflexivity].
  apply mem_kind_in in E. destruct E as [<- | [<- | []]]; congruence.
Qed.
Print Assumptions adjuster_clean_generated_partial.
