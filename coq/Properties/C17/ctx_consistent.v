(* C17 (full, for every adjuster table): ContextAdjuster(c).visit(t) leaves a
   tree in which every Name / Attribute / Subscript / Tuple / List / Starred
   carries the context of its position (and no ctx-less expression stands in a
   Store/Del position), provided `adjustable T (Some c) c t`:
     - every class met while an override is in force has a locally correct
       handler (`kind_ok`: it applies the override to a ctx-carrying node and
       passes to each child exactly the context Python requires there),
     - the parts the adjuster does not touch (below Call arguments, Dict,
       Lambda, comprehensions) were consistent already.
   For the table generated from the current source `kind_ok` holds for every
   class except those pinned in adjuster_clean_generated_partial. *)
From Coq Require Import List.
Require Import MV.Tmpl.Tree MV.Tmpl.Replace MV.Tmpl.ReplaceProofs.

Theorem ctx_consistent : forall (T : table) (t : tree) (c : ctx),
  adjustable T (Some c) c t = true -> ctx_ok c (adjust T (Some c) t) = true.
Proof. intros T t c H. apply adjust_ctx_ok; [exact H | right; reflexivity]. Qed.
Print Assumptions ctx_consistent.
