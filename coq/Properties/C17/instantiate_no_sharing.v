(* C17 (full): instantiating ANY template with ANY replacements yields a list of
   trees in which no node object occurs twice, and every node of the result is
   either a node of the template, a ready-made node the caller passed for an
   `arg` placeholder, or was created during the call (so the result shares
   nothing with the replacement values of Name / keyword placeholders: they are
   copied by copy_clean).  `own R t` = identities of the template plus those of
   the non-Name values given to `arg` placeholders (inserted uncopied by
   ReplaceTransformer.visit_arg); they must be distinct and older than the
   allocation counter n. *)
From Coq Require Import List.
Require Import MV.Tmpl.Tree MV.Tmpl.Replace MV.Tmpl.ReplaceProofs.

Theorem instantiate_no_sharing : forall (T : table) (R : repls) (t : tree) (n : nat),
  NoDup (own R t) -> (forall i, In i (own R t) -> i < n) ->
  NoDup (ids_of_list (fst (inst T R n t))) /\
  n <= snd (inst T R n t) /\
  forall i, In i (ids_of_list (fst (inst T R n t))) -> In i (own R t) \/ n <= i < snd (inst T R n t).
Proof. exact inst_no_sharing. Qed.
Print Assumptions instantiate_no_sharing.
