(* C17 (full, any table / template / replacements): if the parsed template is
   context-consistent and every substitution it performs is fine (`repl_ok`: a
   ctx-carrying replacement is `adjustable` at the placeholder's context, any
   other replacement is consistent at that position as it stands), then every
   tree templates.replace returns is context-consistent. *)
From Coq Require Import List.
Require Import MV.Tmpl.Tree MV.Tmpl.Replace MV.Tmpl.ReplaceProofs.

Theorem instantiate_ctx_consistent : forall (T : table) (R : repls) (t : tree) (c : ctx) (n : nat),
  ctx_ok c t = true -> repl_ok T R c t = true ->
  forallb (ctx_ok c) (fst (inst T R n t)) = true.
Proof. intros T R t c n. apply inst_ctx_ok. Qed.
Print Assumptions instantiate_ctx_consistent.
