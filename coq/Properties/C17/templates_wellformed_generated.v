(* C17 (re-proved on every run over the templates GENERATED from every
   templates.replace(...) call site): each template parses to a tree with
   distinct identities and consistent contexts, hence -- by the general
   theorems -- instantiating it (current adjuster table, any replacements that
   give names to `arg` placeholders and satisfy repl_ok) yields trees with
   distinct identities, sharing nothing with the replacements, with consistent
   contexts. *)
From Coq Require Import List Bool.
Require Import MV.Tmpl.Tree MV.Tmpl.Replace MV.Tmpl.ReplaceProofs MV.Generated.C17_gen.

Theorem templates_wellformed_generated :
  forall n t, In (n, t) templates ->
  forall (R : repls) (m : nat), n <= m ->
  arg_discipline R t = true -> repl_ok adj_table R Load t = true ->
  NoDup (ids_of_list (fst (inst adj_table R m t))) /\
  (forall i, In i (ids_of_list (fst (inst adj_table R m t))) -> In i (ids t) \/ m <= i) /\
  forallb (ctx_ok Load) (fst (inst adj_table R m t)) = true.
Proof.
  assert (H : forallb (fun nt => template_ok (fst nt) (snd nt)) templates = true) by (vm_compute; reflexivity).
  intros n t Hin R m Hnm Hd Hr. rewrite forallb_forall in H. specialize (H _ Hin). simpl in H.
  apply (template_instantiate adj_table R n t m); assumption.
Qed.
Print Assumptions templates_wellformed_generated.
