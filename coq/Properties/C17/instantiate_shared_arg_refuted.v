(* C17 (refuted): without the side condition on `arg` placeholders the
   no-sharing statement is false on the faithful model: visit_arg inserts a
   non-Name replacement uncopied, so a template that uses the placeholder twice
   (here: lambda a: lambda a: 0) contains the caller's ast.arg object twice.
   (Reproduced on the real templates.replace by the correspondence harness.) *)
From Coq Require Import List String.
Import ListNotations.
Require Import MV.Tmpl.Tree MV.Tmpl.Replace MV.Tmpl.ReplaceProofs.
Local Open Scope string_scope.

Definition tpl : tree :=
  Node 1 KLambda None "" [(FOther, Node 2 KOther None "" [(FOther, Node 3 KArg None "a" [])]);
                          (FOther, Node 4 KLambda None "" [(FOther, Node 5 KOther None "" [(FOther, Node 6 KArg None "a" [])]);
                                                           (FOther, Node 7 KConstant None "" [])])].
Definition R0 : repls := [("a", [Node 8 KArg None "x" []])].

Theorem instantiate_shared_arg_refuted :
  exists (T : table) (R : repls) (t : tree) (n : nat),
    NoDup (ids t) /\ (forall i, In i (ids t) -> i < n) /\
    ~ NoDup (ids_of_list (fst (inst T R n t))).
Proof.
  exists [], R0, tpl, 9. split; [|split].
  - apply nodupb_NoDup. vm_compute. reflexivity.
  - intros i Hi. vm_compute in Hi. repeat (destruct Hi as [<- | Hi]; [repeat constructor|]). destruct Hi.
  - intros H. apply nodupb_NoDup in H. vm_compute in H. discriminate.
Qed.
Print Assumptions instantiate_shared_arg_refuted.
