(* C17 (refuted = known finding C17-namedexpr-ctx): for the adjuster as it was
   when this check was written (no visit_NamedExpr, no visit_Starred; table
   pinned below, NOT the generated one) the guard of ctx_consistent cannot be
   dropped: the consistent Load expression  (a, (n := 4), n)  comes back from
   ContextAdjuster(Load) with the walrus target `n` marked Load. *)
From Coq Require Import List String.
Import ListNotations.
Require Import MV.Tmpl.Tree MV.Tmpl.Replace MV.Tmpl.ReplaceProofs.
Local Open Scope string_scope.

Definition table_0 : table := [
  (KAttribute, mkHandler true [(SAll, OSet Load)]);
  (KTuple, mkHandler true [(SAll, OKeep)]);
  (KList, mkHandler true [(SAll, OKeep)]);
  (KName, mkHandler true [(SAll, OKeep)]);
  (KCall, mkHandler true [(SAll, ONone)]);
  (KDict, mkHandler false [(SAll, ONone)]);
  (KSubscript, mkHandler true [(SField FValue, OSet Load); (SAll, OSet Load)]);
  (KComprehension, mkHandler false [(SAll, ONone)]);
  (KLambda, mkHandler false [(SAll, ONone)])].

Definition witness : tree :=
  Node 1 KTuple (Some Load) "" [
    (FElts, Node 2 KName (Some Load) "a" []);
    (FElts, Node 3 KNamedExpr None "" [(FTarget, Node 4 KName (Some Store) "n" []);
                                       (FValue, Node 5 KConstant None "" [])]);
    (FElts, Node 6 KName (Some Load) "n" [])].

Theorem ctx_consistent_unguarded_refuted :
  exists t, ctx_ok Load t = true /\ ctx_ok Load (adjust table_0 (Some Load) t) = false
            /\ adjustable table_0 (Some Load) Load t = false.
Proof. exists witness. vm_compute. repeat split. Qed.
Print Assumptions ctx_consistent_unguarded_refuted.
