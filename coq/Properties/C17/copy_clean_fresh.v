(* C17 (full): copy_clean gives every node of the copy a new identity: the
   identities of copy n t are exactly n, n+1, ..., n + size t - 1. *)
From Coq Require Import List.
Require Import MV.Tmpl.Tree MV.Tmpl.Replace MV.Tmpl.ReplaceProofs.

Theorem copy_clean_fresh : forall (t : tree) (n : nat),
  ids (copy n t) = seq n (size t) /\ NoDup (ids (copy n t)).
Proof. intros t n. rewrite ids_copy. split; [reflexivity | apply seq_NoDup]. Qed.
Print Assumptions copy_clean_fresh.
