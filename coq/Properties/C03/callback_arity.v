(* C03: every callable the converter passes to an operator takes exactly the number of arguments
   (a) the operator implementation calls that parameter with (parsed from malt/operators/*.py,
   followed through the _py_* helpers) and (b) the documented example shows (operators.md);
   the documented parameter lists are the real parameter lists; expression operators are called
   with as many arguments as they have parameters.  Finite domain (all (operator, parameter)
   pairs of the generated tables), enumerated completely. *)
From Coq Require Import List String Bool Arith ZArith Permutation.
Import ListNotations.
Require Import MV.Contract.ContractSyntax MV.Contract.StateModel MV.Contract.StateProofs MV.Contract.Emit
               MV.Contract.EmitProofs MV.Contract.BlockVars MV.Contract.BlockVarsProofs MV.Contract.ContractCheck
               MV.Generated.C03_gen.
Local Open Scope string_scope.

Theorem callback_arity :
  (forall op param n, In (op, param, n) (c_calls contract_gen) -> emitted_arity contract_gen op param = Some n) /\
  (forall op param n, In (op, param, n) (c_doc_arity contract_gen) -> emitted_arity contract_gen op param = Some n) /\
  (forall op params, In (op, params) (c_doc_params contract_gen) -> lookup op (c_sigs contract_gen) = Some params) /\
  (forall op args, In (op, args) (c_exprs contract_gen) -> List.length args = List.length (sig_of contract_gen op)).
Proof.
  assert (E : forall a n, opt_nat_eqb a n = true -> a = Some n).
  { intros [m | ] n H; simpl in H; try discriminate. apply Nat.eqb_eq in H; subst; auto. }
  split; [ | split; [ | split]].
  - assert (H : calls_ok contract_gen = true) by (vm_compute; reflexivity).
    unfold calls_ok in H. rewrite forallb_forall in H. intros op param n I. apply E. apply (H _ I).
  - assert (H : doc_arity_ok contract_gen = true) by (vm_compute; reflexivity).
    unfold doc_arity_ok in H. rewrite forallb_forall in H. intros op param n I. apply E. apply (H _ I).
  - assert (H : forallb (fun t => match lookup (fst t) (c_sigs contract_gen) with
                                  | Some l => list_str_eqb (snd t) l | None => false end)
                        (c_doc_params contract_gen) = true) by (vm_compute; reflexivity).
    rewrite forallb_forall in H. intros op params I. specialize (H _ I). cbn [fst snd] in H.
    destruct (lookup op (c_sigs contract_gen)) as [l | ]; try discriminate. f_equal.
    clear -H. revert l H. induction params as [ | x r IH]; intros [ | y s] H; simpl in H; try discriminate; auto.
    apply andb_true_iff in H; destruct H as [H1 H2]. apply String.eqb_eq in H1; subst. f_equal; auto.
  - assert (H : expr_arity_ok contract_gen = true) by (vm_compute; reflexivity).
    unfold expr_arity_ok in H. rewrite forallb_forall in H. intros op args I. specialize (H _ I).
    apply Nat.eqb_eq in H; auto.
Qed.
(* the table is not empty and covers the three statement operators and the thunks of the expression operators *)
Example arity_nonvacuous :
  emitted_arity contract_gen "for_stmt" "body" = Some 1 /\ emitted_arity contract_gen "for_stmt" "extra_test" = Some 0 /\
  emitted_arity contract_gen "while_stmt" "test" = Some 0 /\ emitted_arity contract_gen "if_stmt" "orelse" = Some 0 /\
  emitted_arity contract_gen "if_exp" "if_true" = Some 0 /\ emitted_arity contract_gen "and_" "b" = Some 0 /\
  In ("for_stmt", "body", 1) (c_calls contract_gen) /\ In ("if_exp", "if_false", 0) (c_calls contract_gen).
Proof. vm_compute. repeat split; auto 20. Qed.
Print Assumptions callback_arity.
