(* C03: for all sets of basic / composite block variables and live-in / live-out variables (as
   duplicate-free lists), the order and output count computed by the CURRENT formulas of
   _get_block_vars (set expression of the input-only variables with Python's precedence, sort key,
   nouts -- generated) satisfy: 0 <= nouts <= number of block variables; the result is a permutation
   of basic U composite; the variables at positions < nouts are exactly those that are not
   input-only (outputs first); and a variable that is not an output is a basic variable that is
   live into the statement, NOT live after it and NOT declared global / nonlocal in the function (so
   nothing live, and nothing that stays observable after the function returns, is ever dropped from
   the outputs). *)
From Coq Require Import List String Bool Arith ZArith Permutation.
Import ListNotations.
Require Import MV.Contract.ContractSyntax MV.Contract.StateModel MV.Contract.StateProofs MV.Contract.Emit
               MV.Contract.EmitProofs MV.Contract.BlockVars MV.Contract.BlockVarsProofs MV.Contract.ContractCheck
               MV.Generated.C03_gen.
Local Open Scope string_scope.

Theorem nouts_bounds_and_order : forall (r : sets) (vars : list string) (nouts : nat),
  NoDup (s_basic r) -> NoDup (s_composite r) ->
  block_vars block_vars_gen r = Some (vars, nouts) ->
  nouts <= List.length vars /\
  Permutation vars (sunion (s_basic r) (s_composite r)) /\
  (forall i q, nth_error vars i = Some q -> (i < nouts <-> ~ In q (input_only block_vars_gen r))) /\
  (forall q, In q (input_only block_vars_gen r) ->
             In q (s_basic r) /\ In q (s_live_in r) /\ ~ In q (s_live_out r)
             /\ ~ In q (s_globals r) /\ ~ In q (s_nonlocals r)).
Proof.
  intros r vars nouts Nb Nc H.
  assert (Hs : interp block_vars_gen r (bv_scope block_vars_gen) = Some (sunion (s_basic r) (s_composite r))) by reflexivity.
  assert (Hi : interp block_vars_gen r (bv_input block_vars_gen) =
               Some (sinter (s_basic r) (sdiff (sdiff (sdiff (s_live_in r) (s_live_out r)) (s_globals r)) (s_nonlocals r)))) by reflexivity.
  assert (Hio : input_only block_vars_gen r = sinter (s_basic r) (sdiff (sdiff (sdiff (s_live_in r) (s_live_out r)) (s_globals r)) (s_nonlocals r))) by reflexivity.
  destruct (block_vars_spec block_vars_gen r _ _ vars nouts Hs Hi H) as [A [B C]].
  - apply NoDup_sunion; auto.
  - apply NoDup_sinter; auto.
  - intros x Hx. apply In_sinter in Hx. apply In_sunion. left; tauto.
  - rewrite Hio. split; [auto | split; [auto | split; [auto | ]]].
    intros q Hq. apply In_sinter in Hq. destruct Hq as [Hq1 Hq2]. apply In_sdiff in Hq2. destruct Hq2 as [Hq2 Hn].
    apply In_sdiff in Hq2. destruct Hq2 as [Hq2 Hg]. apply In_sdiff in Hq2. tauto.
Qed.
Example nouts_nonvacuous :
  block_vars block_vars_gen {| s_basic := ["x"; "a"; "j"]; s_composite := ["o.v"]; s_live_in := ["a"; "x"; "o"]; s_live_out := ["x"]; s_globals := []; s_nonlocals := [] |}
  = Some (["j"; "o.v"; "x"; "a"], 3).
Proof. vm_compute; reflexivity. Qed.
Print Assumptions nouts_bounds_and_order.
