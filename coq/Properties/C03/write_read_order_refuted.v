(* C03 known finding (composite-resolved-through-later-state-variable): the block variables are
   sorted by (input-only, str(name)), so d[x] precedes x.  set_state((a, b)) stores a into
   d[<old x>] and then rebinds x; get_state() then reads d[<new x>]: a write followed by a read
   does not return what was written although the names are distinct and nothing is aliased. *)
From Coq Require Import List String Bool Arith ZArith Permutation.
Import ListNotations.
Require Import MV.Contract.ContractSyntax MV.Contract.StateModel MV.Contract.StateProofs MV.Contract.Emit
               MV.Contract.EmitProofs MV.Contract.BlockVars MV.Contract.BlockVarsProofs MV.Contract.ContractCheck
               MV.Generated.C03_gen.
Local Open Scope string_scope.

Theorem write_read_order_refuted :
  exists s vars vs s', NoDup vars /\ assignable vars = true /\ composites_exist s vars = true /\
    block_vars block_vars_gen {| s_basic := ["x"]; s_composite := ["d[x]"]; s_live_in := ["d"; "x"]; s_live_out := ["x"]; s_globals := []; s_nonlocals := [] |}
      = Some (map show vars, 2) /\
    set s vars vs = Some s' /\ get s' vars <> Some vs.
Proof.
  exists (mk_state [("d", VRef 0); ("x", VInt 0)] [(0, KItem (VInt 0), VInt 10); (0, KItem (VInt 1), VInt 11)]),
         [QSub (QS "d") (QS "x"); QS "x"], [VInt 20; VInt 1].
  eexists. split.
  - constructor; [simpl; intros [H | []]; discriminate | constructor; [intros [] | constructor]].
  - split; [reflexivity | ]. split; [reflexivity | ]. split; [vm_compute; reflexivity | ].
    split; [reflexivity | ]. vm_compute. discriminate.
Qed.
Print Assumptions write_read_order_refuted.
