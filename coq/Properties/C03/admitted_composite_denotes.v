(* C03: "the symbol-name tuple, the getter tuple and the setter tuple denote, position by position, the same variables of
   the enclosing function" for COMPOSITE block variables (o.v, d['k'], t[p.i], t[d[j]]).  The generated get_state /
   set_state resolve such a name in the enclosing function (state s); the code of the block that stores to it resolves it
   with the block's own variables (state t).  The two share exactly the names that are live into the statement: a name
   first bound inside the block is a local of the generated body function.  _get_block_composite_vars admits a composite
   only if all its support symbols are live in (BlockVars.composite_admitted; the static correspondence checks it on every
   converted statement: ContractCheck.check_static).

   Statement: for an admitted composite, the enclosing function and the block resolve the name to the same value, to
   the same storage cell, and the getter element ldu(lambda: q, 'q') is the same -- whatever the depth of the name (an
   index may itself be an attribute or an item).  unadmitted_composite_differs shows that the admission rule is needed:
   for e[p.i] with p created inside the block the enclosing function designates the junk cell e[Undefined('p')] (its p is
   the Undefined placeholder) while the block writes e[2]. *)
From Coq Require Import List String Bool ZArith.
Import ListNotations.
Require Import MV.Contract.ContractSyntax MV.Contract.StateModel MV.Contract.StateProofs MV.Contract.BlockVars
               MV.Contract.BlockVarsProofs.
Local Open Scope string_scope.

Theorem admitted_composite_denotes : forall live_in q s t,
  composite_admitted live_in q = true ->
  (forall x, In x live_in -> env s x = env t x) -> (forall l k, heap s l k = heap t l k) ->
  eval s q = eval t q /\ cell_of s q = cell_of t q /\ read1 s q = read1 t q.
Proof. exact admitted_composite_same_cell. Qed.

(* non-vacuity: e[p.i] with e and p live in is admitted; with only e live in it is not, and then the two sides differ *)
Example admitted_nested_index :
  let q := QSub (QS "e") (QAttr (QS "p") "i") in
  composite_admitted ["e"; "p"; "x"] q = true /\ composite_admitted ["e"; "x"] q = false
  /\ composite_admitted ["d"; "e"] (QSub (QS "e") (QSub (QS "d") (QLit (LInt 0)))) = true.
Proof. vm_compute. repeat split; reflexivity. Qed.

Example unadmitted_composite_differs :
  let q := QSub (QS "e") (QAttr (QS "p") "i") in
  let h := [(0, KItem (VInt 2), VInt 12); (1, KAttr "i", VInt 2)] in
  let s := mk_state [("e", VRef 0); ("p", VUndef "p")] h in
  let t := mk_state [("e", VRef 0); ("p", VRef 1)] h in
  (forall x, In x ["e"] -> env s x = env t x)
  /\ cell_of s q = Some (CFld 0 (KItem (VUndef "p"))) /\ cell_of t q = Some (CFld 0 (KItem (VInt 2)))
  /\ read1 s q = Some (VUndef "e[p.i]") /\ read1 t q = Some (VInt 12).
Proof.
  split; [ | vm_compute; repeat split; reflexivity ].
  intros x [E | []]; subst; reflexivity.
Qed.
Print Assumptions admitted_composite_denotes.
Print Assumptions admitted_nested_index.
Print Assumptions unadmitted_composite_differs.
