(* C03 (partial): the options dictionary emitted for a loop has exactly the keys and expressions
   of the set_loop_options entry of the loop's DIRECTIVES annotation, in order, followed for a
   `for` loop by "iterate_names" : <unparsed loop target>; a `while` loop gets nothing else; an
   `if` has no options.  Proved over the generated shape of _create_loop_options / visit_While /
   visit_For.  NOT proved (validated by the dynamic oracle on every run): that the DIRECTIVES
   annotation of a loop holds exactly the directive calls the user placed in that loop
   (DirectivesTransformer's loop stack, first-statement rule, and the copying of the annotation
   by the break lowering). *)
From Coq Require Import List String Bool Arith ZArith Permutation.
Import ListNotations.
Require Import MV.Contract.ContractSyntax MV.Contract.StateModel MV.Contract.StateProofs MV.Contract.Emit
               MV.Contract.EmitProofs MV.Contract.BlockVars MV.Contract.BlockVarsProofs MV.Contract.ContractCheck
               MV.Generated.C03_gen.
Local Open Scope string_scope.

Theorem loop_opts_exact_partial : forall (V : Type) (anno : option (list (string * V))) (c : string -> V) (target : string),
  let base := match anno with Some kv => kv | None => [] end in
  emit_opts (tpl_of KWhile) loop_options_gen anno c target = Some base /\
  emit_opts (tpl_of KFor) loop_options_gen anno c target = Some (List.app base [("iterate_names", c target)]) /\
  emit_opts (tpl_of KIf) loop_options_gen anno c target = None.
Proof. intros; repeat split; reflexivity. Qed.
Print Assumptions loop_opts_exact_partial.
