(* C03: laws of the generated state functions on the environment model.
   (1) reading is a function of the state only (the model's getter returns values and no state:
       effect-freedom holds by construction of the model and is validated dynamically);
       two reads of equivalent states agree;
   (2) writing back what was just read changes nothing -- for simple names and for composites that
       exist (guard composites_exist: known finding C03 composite-missing-at-entry);
   (3) a write followed by a read returns what was written, when the written cells are pairwise
       distinct (no aliasing) and every variable still denotes the cell that was written;
       in particular for state lists where no composite is resolved through another state variable. *)
From Coq Require Import List String Bool Arith ZArith Permutation.
Import ListNotations.
Require Import MV.Contract.ContractSyntax MV.Contract.StateModel MV.Contract.StateProofs MV.Contract.Emit
               MV.Contract.EmitProofs MV.Contract.BlockVars MV.Contract.BlockVarsProofs MV.Contract.ContractCheck
               MV.Generated.C03_gen.
Local Open Scope string_scope.

Theorem get_deterministic : forall s t vars, seq s t -> get s vars = get t vars.
Proof.
  intros s t vars H. induction vars as [ | q vars IH]; simpl; auto.
  unfold read1. rewrite (eval_ext s t q H), IH. reflexivity.
Qed.

Theorem get_set_laws_roundtrip : forall s vars vs,
  assignable vars = true -> composites_exist s vars = true -> get s vars = Some vs ->
  exists s', set s vars vs = Some s' /\ seq s' s.
Proof. intros; apply set_get_roundtrip; auto. Qed.

Theorem get_set_laws_write_read : forall s vars vs cs s',
  set_cells s vars vs = Some (cs, s') -> nodup_cells cs = true ->
  Forall2 (fun q c => cell_of s' q = Some c) vars cs ->
  get s' vars = Some vs.
Proof. exact write_then_read. Qed.

Theorem get_set_laws_write_read_independent : forall s vars vs cs s',
  independent vars = true -> set_cells s vars vs = Some (cs, s') -> nodup_cells cs = true ->
  get s' vars = Some vs.
Proof. exact write_then_read_flat. Qed.

Theorem get_set_lengths : forall s vars vs,
  (forall r, get s vars = Some r -> List.length r = List.length vars) /\
  (forall s', set s vars vs = Some s' -> List.length vs = List.length vars).
Proof.
  intros; split; [apply get_length | ]. unfold set. intros s' H.
  destruct (set_cells s vars vs) as [[cs s1] | ] eqn:E; try discriminate.
  apply (set_cells_length vars vs s cs s1 E).
Qed.

Example laws_nonvacuous :
  let s := mk_state [("d", VRef 0); ("o", VRef 1); ("x", VInt 3)]
                    [(0, KItem (VStr "k"), VInt 5); (1, KAttr "v", VInt 7)] in
  let vars := [QSub (QS "d") (QLit (LStr "k")); QAttr (QS "o") "v"; QS "x"] in
  assignable vars = true /\ composites_exist s vars = true /\ independent vars = true /\
  get s vars = Some [VInt 5; VInt 7; VInt 3] /\
  match set_cells s vars [VInt 1; VInt 2; VInt 4] with
  | Some (cs, s') => nodup_cells cs = true /\ get s' vars = Some [VInt 1; VInt 2; VInt 4]
  | None => False
  end.
Proof. vm_compute. repeat split; reflexivity. Qed.
Print Assumptions get_deterministic.
Print Assumptions get_set_laws_roundtrip.
Print Assumptions get_set_laws_write_read.
Print Assumptions get_set_laws_write_read_independent.
Print Assumptions get_set_lengths.
