(* C03: for every list of block variables (any length, simple and composite names), the symbol-name
   tuple, the tuple returned by the generated getter and the targets of the generated setter have
   the same length and denote, position by position, the same qualified name; composites are read
   through ag__.ldu(lambda: v, 'v'); the getter takes no argument, the setter one argument which it
   unpacks; the call passes exactly these two functions at the operator's get_state / set_state
   parameters, the names at symbol_names, the constant of the same _get_block_vars result at nouts,
   as many arguments as the operator has parameters, and the definitions are part of the emitted
   statements.  Proved over the tables generated from the CURRENT templates (by computation on the
   generated placeholder bindings, for an arbitrary variable list). *)
From Coq Require Import List String Bool Arith ZArith Permutation.
Import ListNotations.
Require Import MV.Contract.ContractSyntax MV.Contract.StateModel MV.Contract.StateProofs MV.Contract.Emit
               MV.Contract.EmitProofs MV.Contract.BlockVars MV.Contract.BlockVarsProofs MV.Contract.ContractCheck
               MV.Generated.C03_gen.
Local Open Scope string_scope.

Lemma emit_canonical : forall (k : kind) (vars : list qn), emit contract_gen (tpl_of k) vars = Some (canonical vars).
Proof. intros k vars; destruct k; destruct vars; reflexivity. Qed.

Theorem names_getter_setter_aligned : forall (k : kind) (vars : list qn),
  exists E, emit contract_gen (tpl_of k) vars = Some E /\ aligned vars E /\
            e_getter_arity E = 0 /\ e_setter_arity E = 1 /\ e_unpacks_param E = true /\ e_wired E = true.
Proof.
  intros k vars. exists (canonical vars). split; [apply emit_canonical | ].
  split; [apply canonical_aligned | repeat split].
Qed.
Example aligned_nonvacuous :
  emit contract_gen (tpl_of KIf) [QSub (QS "d") (QLit (LStr "k")); QAttr (QS "o") "v"; QS "x"] =
  Some {| e_names := ["d['k']"; "o.v"; "x"];
          e_getter := [GGuarded "ag__.ldu" (QSub (QS "d") (QLit (LStr "k"))) "d['k']";
                       GGuarded "ag__.ldu" (QAttr (QS "o") "v") "o.v"; GPlain (QS "x")];
          e_targets := [GPlain (QSub (QS "d") (QLit (LStr "k"))); GPlain (QAttr (QS "o") "v"); GPlain (QS "x")];
          e_getter_arity := 0; e_setter_arity := 1; e_unpacks_param := true; e_wired := true |}.
Proof. vm_compute; reflexivity. Qed.
Print Assumptions names_getter_setter_aligned.
