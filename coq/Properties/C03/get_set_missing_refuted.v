(* C03 known finding (composite-missing-at-entry): without the guard composites_exist the law
   "writing back what was just read changes nothing" is FALSE on the faithful model:
   (a) d = {} and state variable d['k']: get_state() yields Undefined("d['k']") and
       set_state stores that object under d['k'];
   (b) o unbound-as-Undefined and state variables (o, o.v): get_state() succeeds
       (Undefined.__getattribute__ returns self) and set_state raises on the attribute assignment. *)
From Coq Require Import List String Bool Arith ZArith Permutation.
Import ListNotations.
Require Import MV.Contract.ContractSyntax MV.Contract.StateModel MV.Contract.StateProofs MV.Contract.Emit
               MV.Contract.EmitProofs MV.Contract.BlockVars MV.Contract.BlockVarsProofs MV.Contract.ContractCheck
               MV.Generated.C03_gen.
Local Open Scope string_scope.

Theorem get_set_missing_refuted :
  (exists s vars vs s', assignable vars = true /\ get s vars = Some vs /\ set s vars vs = Some s' /\ ~ seq s' s) /\
  (exists s vars vs, assignable vars = true /\ get s vars = Some vs /\ set s vars vs = None).
Proof.
  split.
  - exists (mk_state [("d", VRef 0)] []), [QSub (QS "d") (QLit (LStr "k"))], [VUndef "d['k']"].
    eexists. split; [reflexivity | ]. split; [reflexivity | ]. split; [reflexivity | ].
    intros [_ H]. specialize (H 0 (KItem (VStr "k"))). vm_compute in H. discriminate.
  - exists (mk_state [("o", VUndef "o")] []), [QS "o"; QAttr (QS "o") "v"], [VUndef "o"; VUndef "o"].
    split; [reflexivity | ]. split; reflexivity.
Qed.
Print Assumptions get_set_missing_refuted.
