(* C03: "the tuple returned by the state getter has the length of the symbol-name tuple; reading state has no
   effect" needs get_state() to be TOTAL at every operator invocation.  The generated getter reads simple names
   directly, so a statement executed between two invocations must never unbind a name.  `del` is the only
   statement of the source language that does; VariableAccessTransformer.visit_Delete (table delete_rule_gen,
   translated from malt/converters/variables.py) takes every `del` statement that has a plain-name target apart
   and rebinds the names to the Undefined placeholder instead.

   Statement: for the generated table, every list of targets (names and composites mixed in any order), every
   state and every list of flat state variables (x, x.a, x['k'], x[3], x[y]) on which the getter is total: after
   executing the statements the `del` is replaced by -- in the state reached normally OR by an exception raised
   half-way -- the getter is still total and returns one value per variable.
   The hypothesis on the table is the per-run obligation delete_rule_gen_ok; all_quantifier_unbinds shows that it is
   needed (a table that rewrites only statements whose targets are ALL names leaves `del x, d['k']` a real
   deletion, after which the getter for (x) raises). *)
From Coq Require Import List String Bool ZArith.
Import ListNotations.
Require Import MV.Contract.ContractSyntax MV.Contract.StateModel MV.Contract.StateProofs MV.Contract.Delete
               MV.Contract.DeleteProofs MV.Generated.C03_gen.
Local Open Scope string_scope.

Theorem delete_rule_gen_ok : delete_rule_ok delete_rule_gen = true.
Proof. vm_compute. reflexivity. Qed.

Theorem getter_total_across_delete : forall ts s vars vs,
  forallb flat vars = true -> get s vars = Some vs ->
  keeps s (fst (exec s (lower_delete delete_rule_gen ts))) /\
  exists vs', get (fst (exec s (lower_delete delete_rule_gen ts))) vars = Some vs'
              /\ List.length vs' = List.length vars.
Proof.
  intros ts s vars vs F G. split.
  - apply lowered_delete_keeps_names_bound. exact delete_rule_gen_ok.
  - exact (getter_total_after_lowered_delete _ ts s vars vs delete_rule_gen_ok F G).
Qed.

(* non-vacuity: `del d['k'], x` with x = 3 and d = {'k': 5}: x ends up bound to Undefined('x'), the item is gone,
   the getter for (x, d['k']) returns (Undefined('x'), Undefined("d['k']")) *)
Example lowered_mixed_delete :
  let s := mk_state [("d", VRef 0); ("x", VInt 3)] [(0, KItem (VStr "k"), VInt 5)] in
  let dk := QSub (QS "d") (QLit (LStr "k")) in
  let r := exec s (lower_delete delete_rule_gen [TComp dk; TName "x"]) in
  lower_delete delete_rule_gen [TComp dk; TName "x"] = [DDel [TComp dk]; DRead "x"; DBindUndef "x" "x"]
  /\ snd r = false
  /\ get (fst r) [QS "x"; dk] = Some [VUndef "x"; VUndef "d['k']"].
Proof. vm_compute. repeat split; reflexivity. Qed.

(* the hypothesis matters: with the quantifier `all` the same statement stays a real deletion and the getter raises *)
Example all_quantifier_unbinds :
  let bad := {| dr_rewritten_when := QAll; dr_name := dr_name delete_rule_gen; dr_other := dr_other delete_rule_gen |} in
  let s := mk_state [("d", VRef 0); ("x", VInt 3)] [(0, KItem (VStr "k"), VInt 5)] in
  let dk := QSub (QS "d") (QLit (LStr "k")) in
  get s [QS "x"] = Some [VInt 3]
  /\ get (fst (exec s (lower_delete bad [TComp dk; TName "x"]))) [QS "x"] = None.
Proof. vm_compute. split; reflexivity. Qed.
Print Assumptions delete_rule_gen_ok.
Print Assumptions getter_total_across_delete.
