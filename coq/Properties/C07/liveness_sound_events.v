(* C07, on the exported data of a program (rows `ns` = per CFG node what liveness.py reported and
   what the node does to variables by Python's rules; E = the graph cfg.build returned):
   if the boolean check `lv_sound` passes (it is evaluated on every generated program of every run)
   then for EVERY execution of the function: whenever x is read at node k -- by the node itself or
   by a local function whose definition reaches k (nl = true: also when that function declares x
   nonlocal; lam = true: also by a lambda expression evaluated earlier) -- and no node instance strictly between s and k rebinds or deletes x, then x is in the
   reported live-out set of s and in the reported live-in set of the node executed right after s.
   Guard `~ exhausted` = known finding for-target-killed-on-exit-edge (see liveness_for_header_refuted.v). *)
From Coq Require Import List Arith Bool.
Import ListNotations.
Require Import MV.Cfg.Skel MV.Cfg.SkelCheck MV.Cfg.SkelProofs.
Require Import MV.Flow.SetExpr MV.Flow.MayAnalysis MV.Flow.Dataflow MV.Flow.DataflowProofs.

Theorem liveness_sound_events : forall (E : list edge) (ns : list lnode) (nl lam : bool) (f : fn),
  incl_edges (cfg_fn f) E = true -> lv_sound E ns nl lam (reach_bwd E) = true ->
  forall n d tr o d', exec_fn n f d = (tr, o, d') -> o <> OFuel -> top_ok f = true -> guard_block (f_body f) = true ->
  normal_end o ->
  forall pre s mid k post x, tr = pre ++ s :: mid ++ k :: post ->
    lgen ns nl lam k x ->
    (forall m nx, In (m, nx) (steps mid k) -> ~ dynw name (find_node ns) m nx x) ->
    (forall m nx, In (m, nx) (steps mid k) -> ~ exhausted name (find_node ns) m nx x) ->
    memn x (n_out (find_node ns s)) = true /\ memn x (n_in (find_node ns (hd k mid))) = true.
Proof. exact liveness_sound_events_thm. Qed.
Print Assumptions liveness_sound_events.
