(* C07 (generic dataflow theory): any solution of the backward gen/kill inclusions
     sout n >= sin m for every edge (n, m),  sin n >= gen n,  sin n >= sout n \ kill n
   on a backward-closed node set R is sound along every path a -> mid... -> k of the graph: an item
   generated at k (a variable read there) and killed by no node strictly in between is in sout a
   and in sin of the node right after a. *)
From Coq Require Import List Arith Bool.
Import ListNotations.
Require Import MV.Cfg.Skel MV.Cfg.SkelProofs MV.Flow.MayAnalysis.

Theorem fixpoint_sound_bwd : forall (A : Type) (E : list edge) (R : label -> Prop)
    (gen kill sin sout : label -> A -> Prop),
  bwd_solution A E R gen kill sin sout ->
  forall mid a k x, chain E a (mid ++ [k]) -> R k -> gen k x -> (forall m, In m mid -> ~ kill m x) ->
  sout a x /\ sin (hd k mid) x.
Proof. exact MayAnalysis.fixpoint_sound_bwd. Qed.
Print Assumptions fixpoint_sound_bwd.
