(* C07, known finding for-target-killed-on-exit-edge: without the guard `~ exhausted` the event-level
   statement is false on the data the implementation reports for
       def f(a, b, c):
           if D(1):  x = T(2)
           else:     x = T(3)
           for x in L(4):  pass
           return T(5, x)
   (rows below = export of the real analyses; names a b c D T L x = 1..7).  Decisions [1; 0]: the `if` takes
   its body, the loop runs zero times: trace args, test, x = T(2), for header, return.  x (7) is read by the
   return, nothing rebinds it in between (the header evaluation starts no iteration), yet x is not in the
   reported live-out set of `x = T(2)` -- the header node carries its target as modified, so the target is
   killed on the exit edge too.  The converted function raises UnboundLocalError. *)
From Coq Require Import List Arith Bool.
Import ListNotations.
Require Import MV.Cfg.Skel MV.Cfg.SkelCheck MV.Cfg.SkelProofs.
Require Import MV.Flow.SetExpr MV.Flow.MayAnalysis MV.Flow.Dataflow MV.Flow.DataflowProofs MV.Flow.LvCheck.

Definition w_f : fn :=
  mkfn 1 (BCons (SIf 2 (BCons (SSimple 3) BNil) (BCons (SSimple 4) BNil))
         (BCons (SLoop 5 (BCons (SSimple 6) BNil) BNil) (BCons (SReturn 7) BNil))).
Definition w_E : list edge := [(1, 2); (2, 3); (2, 4); (3, 5); (4, 5); (5, 6); (5, 7); (6, 5); (7, 0)].
Definition w_ns : list lnode :=
 [(mknode 1 true (mkscope [] [] [1; 2; 3] [] [] [] [] [1; 2; 3] []) [] [] [] [] [] [] [4; 5; 6] [4; 5; 6] [] [1; 2; 3] [] [] 0 0);
  (mknode 2 true (mkscope [4] [] [] [] [] [] [] [] []) [] [] [] [] [] [] [4; 5; 6] [5; 6] [4] [] [] [] 0 0);
  (mknode 3 true (mkscope [6] [7] [7] [] [] [] [] [] []) [] [] [] [] [] [] [5; 6] [5; 6] [6] [7] [] [] 0 0);
  (mknode 4 true (mkscope [6] [7] [7] [] [] [] [] [] []) [] [] [] [] [] [] [5; 6] [5; 6] [6] [7] [] [] 0 0);
  (mknode 5 true (mkscope [5] [7] [7] [] [] [] [] [] []) [] [] [] [] [] [] [5; 6] [5; 6; 7] [5] [] [] [7] 6 6);
  (mknode 6 false empty_scope [] [] [] [] [] [] [5; 6] [5; 6] [] [] [] [] 0 0);
  (mknode 7 true (mkscope [6; 7] [] [] [] [] [] [] [] []) [] [] [] [] [] [] [6; 7] [] [6; 7] [] [] [] 0 0)].

Theorem liveness_for_header_refuted :
  exists (E : list edge) (ns : list lnode) (f : fn) n d tr o d' pre s mid k post x,
    incl_edges (cfg_fn f) E = true /\ lv_fix lv_table E ns (reach_bwd E) = true /\
    lv_sound E ns true true (reach_bwd E) = true /\
    exec_fn n f d = (tr, o, d') /\ o <> OFuel /\ top_ok f = true /\ guard_block (f_body f) = true /\ normal_end o /\
    tr = pre ++ s :: mid ++ k :: post /\ lgen ns true true k x /\
    (forall m nx, In (m, nx) (steps mid k) -> ~ dynw name (find_node ns) m nx x) /\
    ~ (forall m nx, In (m, nx) (steps mid k) -> ~ exhausted name (find_node ns) m nx x) /\
    memn x (n_out (find_node ns s)) = false.
Proof.
  exists w_E, w_ns, w_f, 20, [1; 0], [1; 2; 3; 5; 7], ORet, [], [1; 2], 3, [5], 7, [], 7.
  split; [vm_compute; reflexivity|]. split; [vm_compute; reflexivity|]. split; [vm_compute; reflexivity|].
  split; [vm_compute; reflexivity|]. split; [discriminate|]. split; [vm_compute; reflexivity|].
  split; [vm_compute; reflexivity|]. split; [right; left; reflexivity|]. split; [reflexivity|].
  split; [left; vm_compute; auto|]. split; [|split; [|vm_compute; reflexivity]].
  - intros m nx [Hq|[]]. injection Hq as <- <-. unfold dynw. vm_compute.
    intros [[]|[[]|[_ Hb]]]. discriminate Hb.
  - intros G. apply (G 5 7); [left; reflexivity|]. unfold exhausted. vm_compute. split; [auto | discriminate].
Qed.
Print Assumptions liveness_for_header_refuted.
