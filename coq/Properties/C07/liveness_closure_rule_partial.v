(* C07: the closure rule of the GENERATED transfer: every variable that a reaching local function
   (not a lambda) reads and does not bind itself is live on entry of every scoped node.
   PARTIAL: variables the function declares `nonlocal` count as bound by activity analysis, so the
   generated rule `fn_scope.read - fn_scope.bound` drops them although the function reads the enclosing
   function's variable (known finding liveness-nonlocal-closure-read, witness below); whether the
   current source has the full rule is evaluated on every run (`closure_rule_full`, see driver). *)
From Coq Require Import List Arith Bool.
Import ListNotations.
Require Import MV.Flow.SetExpr MV.Flow.SetExprProofs MV.Generated.C07_gen.

Definition closure_rule_full : bool :=
  has_closure lv_include_annotations fcov_unbound lv_scoped_in && has_closure lv_include_annotations fcov_nonlocal lv_scoped_in.

Theorem liveness_closure_rule_partial : forall (e : env name) (x : name) (s : scope),
  e_ann name e = lv_include_annotations -> In (false, s) (e_fns name e) ->
  memn x (s_read s) = true ->
  (memn x (s_bound s) = false \/ (closure_rule_full = true /\ memn x (s_nonlocals s) = true)) ->
  ev name (fun y => y) lv_scoped_in e x = true.
Proof.
  intros e x s Ea Hin M [B|[F N]].
  - assert (C : has_closure lv_include_annotations fcov_unbound lv_scoped_in = true) by (vm_compute; reflexivity).
    apply (has_closure_sound name _ _ _ _ _ _ s C Ea); [|exact Hin].
    intros body Hb. apply (fcov_unbound_sound name _ _ _ _ Hb); assumption.
  - unfold closure_rule_full in F. apply andb_true_iff in F. destruct F as [_ F].
    apply (has_closure_sound name _ _ _ _ _ _ s F Ea); [|exact Hin].
    intros body Hb. apply (fcov_nonlocal_sound name _ _ _ _ Hb); assumption.
Qed.
Print Assumptions liveness_closure_rule_partial.
