(* C07, unguarded: if the edge-sensitive check `lv_sound_e` passes on the exported data of a program -- on the
   edge (n, m) node n kills exactly what its instance followed by m rebinds or deletes: a for header binds its
   targets only on the edge into the loop body -- then for EVERY execution: whenever x is read at node k (directly
   or by a reaching local function) and no node instance strictly between s and k rebinds or deletes x, x is in the
   reported live-out set of s and in the reported live-in set of the node executed right after s.  No guard: this
   covers loops that run zero times and the last (exhausted) evaluation of a for header.
   `lv_sound_e` is evaluated on every generated program of every run (code 7 of Flow/LvCheck.v): it is FALSE on
   the unrepaired implementation (known finding for-target-killed-on-exit-edge, liveness_for_header_refuted.v)
   and true with fixes/C07-for-header-edge-sensitive.diff. *)
From Coq Require Import List Arith Bool.
Import ListNotations.
Require Import MV.Cfg.Skel MV.Cfg.SkelCheck MV.Cfg.SkelProofs.
Require Import MV.Flow.SetExpr MV.Flow.MayAnalysis MV.Flow.Dataflow MV.Flow.DataflowProofs.

Theorem liveness_sound_events_edge : forall (E : list edge) (ns : list lnode) (nl lam : bool) (f : fn),
  incl_edges (cfg_fn f) E = true -> lv_sound_e E ns nl lam (reach_bwd E) = true ->
  forall n d tr o d', exec_fn n f d = (tr, o, d') -> o <> OFuel -> top_ok f = true -> guard_block (f_body f) = true ->
  normal_end o ->
  forall pre s mid k post x, tr = pre ++ s :: mid ++ k :: post ->
    lgen ns nl lam k x ->
    (forall m nx, In (m, nx) (steps mid k) -> ~ dynw name (find_node ns) m nx x) ->
    memn x (n_out (find_node ns s)) = true /\ memn x (n_in (find_node ns (hd k mid))) = true.
Proof. exact liveness_sound_events_edge_thm. Qed.
Print Assumptions liveness_sound_events_edge.
