(* C07: the for-header rule of the GENERATED transfer.  PARTIAL: stated under `exit_edge_rule = true`, a decidable
   property of the generated table that is evaluated on every run: it is false for the unrepaired liveness.py (no
   such rule: known finding for-target-killed-on-exit-edge) and true with fixes/C07-for-header-edge-sensitive.diff.
   When it holds: whatever is live on a loop-EXIT successor of a for header and is one of the loop targets is live
   on entry of the header, for every scope, state and target set. *)
From Coq Require Import List Arith Bool.
Import ListNotations.
Require Import MV.Flow.SetExpr MV.Flow.SetExprProofs MV.Generated.C07_gen.

Definition exit_edge_rule : bool := passes_exit lv_include_annotations lv_scoped_in.

Theorem liveness_exit_edge_rule_partial : forall (e : env name) (x : name),
  exit_edge_rule = true -> e_ann name e = lv_include_annotations ->
  e_state_exit name e x = true -> memn x (e_targets name e) = true ->
  ev name (fun y => y) lv_scoped_in e x = true.
Proof.
  intros e x F Ea S Tg. apply (passes_exit_sound name (fun y => y) _ _ _ _ F Ea S Tg).
Qed.
Print Assumptions liveness_exit_edge_rule_partial.
