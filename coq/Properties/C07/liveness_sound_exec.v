(* C07: composition with C05 (`exec_fn_is_path`).  For every function skeleton, every decision
   sequence and fuel: along the executed trace  ... s, mid, k ... , an item node k generates (reads)
   that no node strictly between s and k kills is in the solution's out set of s and in set of the
   node executed right after s -- for ANY gen / kill and ANY solution of the inclusions on cfg_fn f.
   Covers every loop trip count including zero (the trace is any execution).  Guard: C05's
   (no jump in an except body of a try with finally). *)
From Coq Require Import List Arith Bool.
Import ListNotations.
Require Import MV.Cfg.Skel MV.Cfg.SkelProofs MV.Flow.MayAnalysis.

Theorem liveness_sound_exec : forall (A : Type) (gen kill sin sout : label -> A -> Prop) (R : label -> Prop)
    n f d tr o d',
  exec_fn n f d = (tr, o, d') -> o <> OFuel -> top_ok f = true -> guard_block (f_body f) = true ->
  bwd_solution A (cfg_fn f) R gen kill sin sout ->
  forall pre s mid k post x,
    tr = pre ++ s :: mid ++ k :: post ->
    (R k \/ (normal_end o /\ forall a, In (a, EXIT) (cfg_fn f) -> R a)) ->
    gen k x -> (forall m, In m mid -> ~ kill m x) ->
    sout s x /\ sin (hd k mid) x.
Proof. exact MayAnalysis.liveness_sound_exec. Qed.
Print Assumptions liveness_sound_exec.
