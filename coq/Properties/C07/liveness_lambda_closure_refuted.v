(* C07, known finding liveness-lambda-closure-not-live: the statement of liveness_sound_events with the lambda
   clause of `lgen` (lam = true: x is read by the body of a lambda expression evaluated earlier and called at k) is
   false on the data the implementation reports for
       def f(a, b, c):
           x = T(1)
           m2 = lambda: T(3, x)
           if D(4):
               x = T(5)
           return m2()
   (rows below = export of the real analyses; names a b c D T x m2 = 1..7; node 7 is the CFG node of the lambda
   expression, contracted out of the graph traces live in).  Decisions [1]: trace args, x = T(1), m2 = lambda..,
   test, x = T(5) (node 5), return m2() (node 6).  The call at node 6 reads x through the lambda, nothing lies in
   between, yet x (6) is neither in the reported live-out set of node 5 nor in the live-in set of node 6:
   liveness.Analyzer.lamba_check leaves lambdas out of the closure rule.  The reported sets ARE the fixed point of
   the generated equations and satisfy all inclusions without the lambda clause (lam = false).
   Real effect: f(True) == 2 but malt.to_graph(f)(True) == 1 for  x = 1; g = lambda: x; if c: x = 2; return g(). *)
From Coq Require Import List Arith Bool.
Import ListNotations.
Require Import MV.Cfg.Skel MV.Cfg.SkelCheck MV.Cfg.SkelProofs.
Require Import MV.Flow.SetExpr MV.Flow.MayAnalysis MV.Flow.Dataflow MV.Flow.DataflowProofs MV.Flow.LvCheck.

Definition w_f : fn :=
  mkfn 1 (BCons (SSimple 2) (BCons (SSimple 3) (BCons (SIf 4 (BCons (SSimple 5) BNil) BNil) (BCons (SReturn 6) BNil)))).
Definition w_E : list edge := [(1, 2); (2, 7); (3, 4); (4, 5); (4, 6); (5, 6); (6, 0); (7, 3)].
Definition w_L : list label := [7].
Definition lam_scope : scope := mkscope [5; 6] [] [] [] [] [] [] [] [].
Definition w_ns : list lnode :=
 [(mknode 1 true (mkscope [] [] [1; 2; 3] [] [] [] [] [1; 2; 3] []) [] [] [] [] [] [] [4; 5] [4; 5] [] [1; 2; 3] [] [] 0 0);
  (mknode 2 true (mkscope [5] [6] [6] [] [] [] [] [] []) [] [] [] [] [] [] [4; 5] [4; 5; 6] [5] [6] [] [] 0 0);
  (mknode 3 true (mkscope [5; 6] [7] [7] [] [] [] [] [] []) [(true, lam_scope)] [] [] [] [] [] [4; 5; 6] [4; 5; 7] [] [7] [] [] 0 0);
  (mknode 4 true (mkscope [4] [] [] [] [] [] [] [] []) [(true, lam_scope)] [] [] [5; 6] [] [] [4; 5; 7] [5; 7] [4] [] [] [] 0 0);
  (mknode 5 true (mkscope [5] [6] [6] [] [] [] [] [] []) [(true, lam_scope)] [] [] [5; 6] [] [] [5; 7] [7] [5] [6] [] [] 0 0);
  (mknode 6 true (mkscope [7] [] [] [] [] [] [] [] []) [(true, lam_scope)] [] [] [5; 6] [] [] [7] [] [7] [] [] [] 0 0);
  (mknode 7 true (mkscope [] [] [] [] [] [] [] [] []) [] [] [] [] [] [] [4; 5; 6] [4; 5; 6] [] [] [] [] 0 0)].

Theorem liveness_lambda_closure_refuted :
  exists (E : list edge) (L : list label) (ns : list lnode) (f : fn) n d tr o d' pre s mid k post x,
    let Ec := contract E L in
    incl_edges (cfg_fn f) Ec = true /\ lv_fix lv_table E ns (reach_bwd E) = true /\
    lv_sound Ec ns true false (reach_bwd Ec) = true /\
    exec_fn n f d = (tr, o, d') /\ o <> OFuel /\ top_ok f = true /\ guard_block (f_body f) = true /\ normal_end o /\
    tr = pre ++ s :: mid ++ k :: post /\ lgen ns true true k x /\
    (forall m nx, In (m, nx) (steps mid k) -> ~ dynw name (find_node ns) m nx x) /\
    memn x (n_out (find_node ns s)) = false /\ memn x (n_in (find_node ns (hd k mid))) = false.
Proof.
  exists w_E, w_L, w_ns, w_f, 20, [1], [1; 2; 3; 4; 5; 6], ORet, [], [1; 2; 3; 4], 5, [], 6, [], 6.
  split; [vm_compute; reflexivity|]. split; [vm_compute; reflexivity|]. split; [vm_compute; reflexivity|].
  split; [vm_compute; reflexivity|]. split; [discriminate|]. split; [vm_compute; reflexivity|].
  split; [vm_compute; reflexivity|]. split; [right; left; reflexivity|]. split; [reflexivity|].
  split; [right; right; right; split; [reflexivity | vm_compute; auto]|].
  split; [intros m nx []|]. split; vm_compute; reflexivity.
Qed.
Print Assumptions liveness_lambda_closure_refuted.
