(* C07: the transfer equations GENERATED from liveness.Analyzer.visit_node (Generated/C07_gen.v) are of
   gen/kill form with gen >= read and kill <= modified U deleted, for every node scope, every incoming
   state and every set of reaching functions.  Proved through the syntactic disciplines of SetExpr.v
   re-checked against whatever was generated (a harmless rewrite of the equations still proves). *)
From Coq Require Import List Arith Bool.
Import ListNotations.
Require Import MV.Flow.SetExpr MV.Flow.SetExprProofs MV.Generated.C07_gen.

Theorem liveness_transfer_sound : forall (e : env name) (x : name),
  e_ann name e = lv_include_annotations ->
  let ev := ev name (fun y => y) in
  (* everything the node reads is live on entry *)
  (memn x (s_read (e_scope name e)) = true -> ev lv_scoped_in e x = true) /\
  (* what is live on exit and neither modified nor deleted by the node is live on entry *)
  (e_state name e x = true -> memn x (s_modified (e_scope name e)) = false ->
   memn x (s_deleted (e_scope name e)) = false -> ev lv_scoped_in e x = true) /\
  (* nodes without a scope (pass, break, continue) pass the state through *)
  (e_state name e x = true -> ev lv_ignored_in e x = true) /\
  (* live_out is the join *)
  (e_state name e x = true -> ev lv_scoped_out e x = true /\ ev lv_ignored_out e x = true) /\
  (* the join ranges over the successors' in sets; a node is revisited when its in set changed *)
  (lv_join_over_next = true /\ lv_join_reads_in = true /\ lv_changed_compares_in = true).
Proof.
  intros e x Ea ev0. unfold ev0.
  assert (C : cov lv_include_annotations lv_scoped_in FRead [] = true) by (vm_compute; reflexivity).
  assert (P : passes lv_include_annotations lv_scoped_in [FModified; FDeleted] = true) by (vm_compute; reflexivity).
  assert (P2 : passes lv_include_annotations lv_ignored_in [] = true) by (vm_compute; reflexivity).
  assert (P3 : passes lv_include_annotations lv_scoped_out [] = true) by (vm_compute; reflexivity).
  assert (P4 : passes lv_include_annotations lv_ignored_out [] = true) by (vm_compute; reflexivity).
  split; [|split; [|split; [|split]]].
  - intros M. apply (cov_sound name _ _ _ _ _ _ _ C Ea M). apply off_nil.
  - intros S M D. apply (passes_sound name _ _ _ _ _ _ P Ea S).
    intros g [<-|[<-|[]]]; assumption.
  - intros S. apply (passes_sound name _ _ _ _ _ _ P2 Ea S). apply off_nil.
  - intros S. split; [apply (passes_sound name _ _ _ _ _ _ P3 Ea S) | apply (passes_sound name _ _ _ _ _ _ P4 Ea S)]; apply off_nil.
  - vm_compute. auto.
Qed.
Print Assumptions liveness_transfer_sound.
