(* C07, known finding liveness-nonlocal-closure-read: with the closure rule as written in liveness.py at the
   time of writing, `live_in |= fn_scope.read - fn_scope.bound` (pinned below), a variable that a reaching
   local function reads and declares nonlocal is not made live:
       def f(c):  x = 1;  def g(): nonlocal x; x = x + 1; return x;  if c: x = 5;  return g()
   f(True) is 6, the converted function returns 2 (x is dropped from the outputs of the `if`). *)
From Coq Require Import List Arith Bool.
Import ListNotations.
Require Import MV.Flow.SetExpr.

Definition pinned_scoped_in : sx :=
  XUnion (XUnion (XIfAnn (XScope FRead) (XDiff (XScope FRead) (XScope FAnnotations)))
                 (XDiff XState (XUnion (XScope FModified) (XScope FDeleted))))
         (XClosure true (XDiff (XFnScope FRead) (XFnScope FBound))).

(* scope of g: reads x (1), binds x (assignment + nonlocal declaration), declares it nonlocal *)
Definition g_scope : scope := mkscope [1] [1] [1] [] [] [1] [] [] [].
(* the node `return g()`: reads g (2); nothing live after it; g reaches it *)
Definition ret_env : env name :=
  mkenv name (mkscope [2] [] [] [] [] [] [] [] []) empty_scope (fun _ => false) (fun _ => false) [] (fun _ => false) [(false, g_scope)] true.

Theorem liveness_nonlocal_closure_refuted :
  exists (e : env name) (x : name) (s : scope),
    In (false, s) (e_fns name e) /\ memn x (s_read s) = true /\ memn x (s_nonlocals s) = true /\
    ev name (fun y => y) pinned_scoped_in e x = false.
Proof. exists ret_env, 1, g_scope. vm_compute. repeat split; auto. Qed.
Print Assumptions liveness_nonlocal_closure_refuted.
