(* C08, known finding activity-nested-params-leak: with the behaviour of visit_arg measured on the
   unchanged tree (q_leak) the statement of activity_matches_binders is false under the two exemptions
   of the property alone:   def f():            the model (and the implementation) report p as a bound
                                def g(p): pass   local of f; p is not exempt and CPython says it is not
   local to f.  names: g=2 p=3 *)
From Coq Require Import List Arith Bool.
Import ListNotations.
Require Import MV.Scope.Ast MV.Scope.Activity MV.Scope.Binders.

Definition noargs : node := N KArgs (NCons (N KGen NNil) (NCons (N KGen NNil) NNil)).
Definition g_def : node :=
  N (KDef 2) (NCons (N KGen NNil) (NCons (N KGen NNil)
     (NCons (N KArgs (NCons (N KGen NNil) (NCons (N KGen (NCons (N (KArg 3) NNil) NNil)) NNil)))
     (NCons (N KGen NNil) NNil)))).
Definition f_body : node := N KGen (NCons g_def NNil).
Definition leaky : quirks := mkq true true true true.
Definition cpython : quirks := mkq false false false false.

Theorem activity_param_leak_refuted :
  exists (args body : node) (n : name),
    wf body = true /\ exempt cpython body n = false /\
    let sc := fn_scope leaky fl0 args body in
    memq (QS n) (bd sc) && negb (memq (QS n) (gl sc)) && negb (memq (QS n) (nl sc)) = true
    /\ is_local cpython args body n = false.
Proof. exists noargs, f_body, 3. vm_compute. repeat split; reflexivity. Qed.
Print Assumptions activity_param_leak_refuted.
