(* C08: for every def / lambda, wherever it is written (any nesting of defs, lambdas, classes; flags f =
   the analyser's state at that point, outside comprehensions), the ARGS_AND_BODY scope the activity
   model computes classifies every name n as CPython's binding rule does:
     bound - globals - nonlocals  =  LOCAL   (parameter or bound in the block, not declared)
     globals = declared global, nonlocals = declared nonlocal, params (scope of node.args) = parameters
   for all names except the exemptions: comprehension targets and except-clause names of the block
   (property text) and -- only while the implementation has the quirk q_leak (known finding
   activity-nested-params-leak, measured on every run into Generated/C08_gen.quirks_now) -- the
   parameters of the defs / lambdas written directly in the block.
   Well-formedness (decls_ok, wf) is decidable, guaranteed by the exporter and re-checked in Coq on
   every exported tree; it excludes a walrus inside a comprehension (known finding
   activity-walrus-in-comprehension, see activity_walrus_in_comprehension_refuted.v). *)
From Coq Require Import List Arith Bool.
Import ListNotations.
Require Import MV.Scope.Ast MV.Scope.Activity MV.Scope.Binders MV.Scope.ActivityProofs MV.Generated.C08_gen.

Theorem activity_matches_binders :
  forall (Q : quirks) (f : flags) (ka : kind) (dflt : node) (decls : nodes) (body : node) (n : name),
  fl_annonly f = false -> fl_incomp f = false -> fl_tg f = [] ->
  decls_ok decls = true -> wf body = true ->
  let args := N ka (NCons dflt (NCons (N KGen decls) NNil)) in
  let sc := fn_scope Q f args body in
  (exemptf n (facts_decls Q decls) = false -> exempt Q body n = false ->
     memq (QS n) (bd sc) && negb (memq (QS n) (gl sc)) && negb (memq (QS n) (nl sc)) = is_local Q args body n)
  /\ memq (QS n) (gl sc) = declared_global Q body n
  /\ memq (QS n) (nl sc) = declared_nonlocal Q body n
  /\ memq (QS n) (pr (visit_args_decl Q f args)) = is_param args n.
Proof. intros. apply fn_scope_matches; unfold fok; auto. Qed.

(* the instance for the implementation as measured on this run *)
Corollary activity_matches_binders_now :
  forall (f : flags) (ka : kind) (dflt : node) (decls : nodes) (body : node) (n : name),
  fl_annonly f = false -> fl_incomp f = false -> fl_tg f = [] ->
  decls_ok decls = true -> wf body = true ->
  let args := N ka (NCons dflt (NCons (N KGen decls) NNil)) in
  let sc := fn_scope quirks_now f args body in
  exemptf n (facts_decls quirks_now decls) = false -> exempt quirks_now body n = false ->
  memq (QS n) (bd sc) && negb (memq (QS n) (gl sc)) && negb (memq (QS n) (nl sc)) = is_local quirks_now args body n.
Proof. intros. apply activity_matches_binders; assumption. Qed.

(* non-vacuity:  def f(a, *, k=d): global g; x = a; g = 1; del y; import os as z; [t for t in a]
   names: a=2 k=3 d=4 g=5 x=6 y=7 z=8 t=9 f=10 *)
Definition ex_decls : nodes := NCons (N (KArg 2) NNil) (NCons (N (KArg 3) NNil) NNil).
Definition ex_body : node :=
  N KGen (NCons (N (KGlobal [5]) NNil)
         (NCons (N KStmt (NCons (N (KName 6 Store) NNil) (NCons (N (KName 2 Load) NNil) NNil)))
         (NCons (N KStmt (NCons (N (KName 5 Store) NNil) (NCons (N (KConst (Some 0)) NNil) NNil)))
         (NCons (N KStmt (NCons (N (KName 7 Del) NNil) NNil))
         (NCons (N KStmt (NCons (N (KAlias 8) NNil) NNil))
         (NCons (N KStmt (NCons (N KComp (NCons (N KGen (NCons (N KCompFor (NCons (N (KName 9 Store) NNil)
                    (NCons (N (KName 2 Load) NNil) (NCons (N KGen NNil) NNil)))) NNil))
                    (NCons (N KGen (NCons (N (KName 9 Load) NNil) NNil)) NNil))) NNil)) NNil)))))).
Example ex_wf : decls_ok ex_decls = true /\ wf ex_body = true.
Proof. vm_compute; split; reflexivity. Qed.
Example ex_locals :
  map (fun n => is_local quirks_now (N KArgs (NCons (N KGen NNil) (NCons (N KGen ex_decls) NNil))) ex_body n) [2; 3; 4; 5; 6; 7; 8; 9]
  = [true; true; false; false; true; true; true; false].
Proof. vm_compute; reflexivity. Qed.
Print Assumptions activity_matches_binders.
Print Assumptions activity_matches_binders_now.
