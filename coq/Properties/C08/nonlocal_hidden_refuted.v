(* C08, repaired defect (Scope.finalize exported read - bound): with q_nlhide = true the statement of
   nonlocal_reads_reach_enclosing_scopes is false:   def y():            x is free in y for CPython,
                                                          def z():        the old rule drops it because
                                                              nonlocal x  visit_Nonlocal makes x bound in z
                                                              x = 1
   names: x=2 y=3 z=4 *)
From Coq Require Import List Arith Bool.
Import ListNotations.
Require Import MV.Scope.Ast MV.Scope.Activity MV.Scope.Binders.

Definition noargs : node := N KArgs (NCons (N KGen NNil) (NCons (N KGen NNil) NNil)).
Definition z_body : node :=
  N KGen (NCons (N (KNonlocal [2]) NNil)
         (NCons (N KStmt (NCons (N (KName 2 Store) NNil) (NCons (N (KConst (Some 0)) NNil) NNil))) NNil)).
Definition old_rule : quirks := mkq false false false true.

Theorem nonlocal_hidden_refuted :
  exists (f : flags) (m : name) (decos rets : node) (ka : kind) (dflt : node) (decls : nodes) (body : node) (n : name),
    wf body = true /\ exempt old_rule body n = false /\ declared_nonlocal old_rule body n = true /\
    memq (QS n) (rd (visit old_rule f (N (KDef m) (NCons decos (NCons rets
        (NCons (N ka (NCons dflt (NCons (N KGen decls) NNil))) (NCons body NNil))))))) = false.
Proof.
  exists fl0, 4, (N KGen NNil), (N KGen NNil), KArgs, (N KGen NNil), NNil, z_body, 2.
  vm_compute. repeat split; reflexivity.
Qed.
Print Assumptions nonlocal_hidden_refuted.
