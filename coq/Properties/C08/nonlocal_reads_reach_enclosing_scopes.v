(* C08 (free variables, the part CPython calls FREE by declaration): with Scope.finalize exporting
   read - (bound - nonlocals) from an isolated scope (q_nlhide = false, measured on every run into
   Generated/C08_gen.quirks_now), every name the body of a def declares nonlocal -- at any depth of
   if / for / while / try / with, read-only, write-only or both: the declaration itself counts -- is in
   the read set the def statement contributes to the scope it is written in, hence (Activity.union is
   monotone) in the read set of every enclosing surrogate scope and, unless bound there, in free_vars
   of the enclosing function: symtable's "free in every function between the declaration and the
   binding".  Names exempt in the body (except-clause names, comprehension targets) aside. *)
From Coq Require Import List Arith Bool.
Import ListNotations.
Require Import MV.Scope.Ast MV.Scope.Activity MV.Scope.Binders MV.Scope.ActivityProofs MV.Generated.C08_gen.

Theorem nonlocal_reads_reach_enclosing_scopes :
  forall (Q : quirks) (f : flags) (m : name) (decos rets : node) (ka : kind) (dflt : node) (decls : nodes)
         (body : node) (n : name),
  q_nlhide Q = false -> wf body = true ->
  exempt Q body n = false -> declared_nonlocal Q body n = true ->
  memq (QS n) (rd (visit Q f (N (KDef m) (NCons decos (NCons rets
        (NCons (N ka (NCons dflt (NCons (N KGen decls) NNil))) (NCons body NNil))))))) = true.
Proof. intros. apply nonlocal_exported; assumption. Qed.

(* the implementation as measured on this run has the rule *)
Example rule_now : q_nlhide quirks_now = false.
Proof. reflexivity. Qed.

(* non-vacuity: def y(): (def z(): nonlocal x; x = 1)   read set contributed by `def y` contains x
   names: x=2 y=3 z=4 *)
Definition noargs : node := N KArgs (NCons (N KGen NNil) (NCons (N KGen NNil) NNil)).
Definition z_def : node :=
  N (KDef 4) (NCons (N KGen NNil) (NCons (N KGen NNil) (NCons noargs (NCons
    (N KGen (NCons (N (KNonlocal [2]) NNil)
            (NCons (N KStmt (NCons (N (KName 2 Store) NNil) (NCons (N (KConst (Some 0)) NNil) NNil))) NNil))) NNil)))).
Definition y_def : node :=
  N (KDef 3) (NCons (N KGen NNil) (NCons (N KGen NNil) (NCons noargs (NCons (N KGen (NCons z_def NNil)) NNil)))).
Example ex_passes_through : memq (QS 2) (rd (visit quirks_now fl0 y_def)) = true.
Proof. vm_compute; reflexivity. Qed.
Print Assumptions nonlocal_reads_reach_enclosing_scopes.
