(* C08: every name the evaluation rule (Binders: FRead / FWrite / FDel, validated against instrumented
   CPython runs on every check) says a simple statement reads, rebinds or deletes is in read, modified,
   deleted of the scope the activity model records on that statement -- for every statement built from
   names, attributes, subscripts, constants, operators / calls / tuples (generic nodes) and import
   aliases: expression statements, return, raise, assert, assignments (any targets), del, import
   (KStmt: recorded scope = visit_list f ch) and augmented assignments (recorded scope as in r_aug).
   PARTIAL: statements containing lambdas or comprehensions, and the headers of
   compound statements / def / class statements are covered by the correspondence and by the
   instrumented-run oracle only (no theorem). *)
From Coq Require Import List Arith Bool.
Import ListNotations.
Require Import MV.Scope.Ast MV.Scope.Activity MV.Scope.Binders MV.Scope.ActivityProofs.

Theorem stmt_reads_writes_complete_partial :
  forall (Q : quirks) (f : flags),
  fl_annonly f = false -> fl_incomp f = false -> fl_tg f = [] ->
  (forall ch n, fexpr_list ch = true ->
     let sc := visit_list Q f ch in let F := facts Q (N KStmt ch) in
     (memf (FRead n) F = true -> memq (QS n) (rd sc) = true)
     /\ (memf (FWrite n) F = true -> memq (QS n) (md sc) = true)
     /\ (memf (FDel n) F = true -> memq (QS n) (dl sc) = true))
  /\ (forall tg v n, fexpr tg = true -> fexpr v = true ->
     let sc := union (visit Q (with_aug f) tg) (visit Q f v) in let F := facts Q (N KAug (NCons tg (NCons v NNil))) in
     (memf (FRead n) F = true -> memq (QS n) (rd sc) = true)
     /\ (memf (FWrite n) F = true -> memq (QS n) (md sc) = true)
     /\ (memf (FDel n) F = true -> memq (QS n) (dl sc) = true)).
Proof.
  intros Q f H1 H2 H3. assert (Hf : fok f) by (unfold fok; auto). split.
  - intros ch n H. destruct (r_list Q ch f Hf H) as [r [w d]]. repeat split; intros; auto.
  - intros tg v n Ht Hv. destruct (r_aug Q f tg v Hf Ht Hv) as [r [w d]]. repeat split; intros; auto.
Qed.

(* non-vacuity:  x.p, y = a[i], b     names a=2 b=3 i=4 x=5 y=6 p=7 *)
Definition ex_stmt : nodes :=
  NCons (N KGen (NCons (N (KAttr 7 Store) (NCons (N (KName 5 Load) NNil) NNil)) (NCons (N (KName 6 Store) NNil) NNil)))
 (NCons (N KGen (NCons (N (KSub Load) (NCons (N (KName 2 Load) NNil) (NCons (N (KName 4 Load) NNil) NNil))) (NCons (N (KName 3 Load) NNil) NNil))) NNil).
Example ex_ok : fexpr_list ex_stmt = true. Proof. vm_compute; reflexivity. Qed.
Example ex_sets : let s := visit_list (mkq true true true true) fl0 ex_stmt in
  (rd s, md s) = ([QS 5; QS 2; QS 4; QI (QS 2) (QS 4); QS 3], [QA (QS 5) 7; QS 6]).
Proof. vm_compute; reflexivity. Qed.
Print Assumptions stmt_reads_writes_complete_partial.
