(* C08, known finding activity-walrus-in-comprehension: outside the well-formedness guard the
   statement is false whatever the quirks:   def f(a): [(y := t) for t in a]
   CPython binds y in f (PEP 572); the model (and the implementation) treat the walrus target as one
   more comprehension target, so y is not bound in f.  names: a=2 y=3 t=4 *)
From Coq Require Import List Arith Bool.
Import ListNotations.
Require Import MV.Scope.Ast MV.Scope.Activity MV.Scope.Binders.

Definition w_args : node := N KArgs (NCons (N KGen NNil) (NCons (N KGen (NCons (N (KArg 2) NNil) NNil)) NNil)).
Definition w_body : node :=
  N KGen (NCons (N KStmt (NCons (N KComp
     (NCons (N KGen (NCons (N KCompFor (NCons (N (KName 4 Store) NNil) (NCons (N (KName 2 Load) NNil) (NCons (N KGen NNil) NNil)))) NNil))
     (NCons (N KGen (NCons (N KGen (NCons (N (KName 3 Store) NNil) (NCons (N (KName 4 Load) NNil) NNil))) NNil)) NNil))) NNil)) NNil).

Theorem activity_walrus_in_comprehension_refuted :
  forall Q : quirks, exists (args body : node) (n : name),
    wf body = false /\ exempt Q body n = false /\
    memq (QS n) (bd (fn_scope Q fl0 args body)) = false /\ is_local Q args body n = true.
Proof. intros Q. exists w_args, w_body, 3. destruct Q as [[] [] []]; vm_compute; repeat split; reflexivity. Qed.
Print Assumptions activity_walrus_in_comprehension_refuted.
