(* C15, per-run side condition over the tables generated from the CURRENT parser._parse_lambda:
   every decision rule that returns a lambda returns the single element of a list it has checked (or
   unpacks, which raises otherwise) to have exactly one element, and the candidate filter keeps every
   lambda whose line span contains the definition line (both comparisons are <=), and parse() hands its text to
   ast.parse without dropping leading lines (the line numbers of the tree are line numbers of the file). *)
From Coq Require Import List Bool.
Import ListNotations.
Require Import MV.Lexer.LambdaSyntax MV.Lexer.LambdaSel MV.Generated.C15_gen.

Theorem lambda_tables_ok :
  rules_ok select_rules = true /\ span_ok span_ops = true /\ norm_ok parse_norm = true.
Proof. vm_compute. repeat split; reflexivity. Qed.
Print Assumptions lambda_tables_ok.
