(* C15, corollary of dedent_preserves_tokens: under the same guards the sequence of string literals
   (opening quote kind, every body character, closing) of the dedented text is identical to that of
   the source -- no string content is lost or altered -- and so is the sequence of code characters. *)
From Coq Require Import List Ascii Bool.
Import ListNotations.
Require Import MV.Lexer.PyLex MV.Lexer.Dedent MV.Lexer.DedentProofs.

Theorem dedent_strings_identical : forall s v,
  unfold_safe s = true -> dedent_block s = Ok v ->
  indents_ok (length (block_indent s)) (lex s) = true ->
  string_items (lex v) = string_items (lex s) /\ code_items (lex v) = code_items (lex s).
Proof. exact dedent_strings. Qed.
Print Assumptions dedent_strings_identical.
