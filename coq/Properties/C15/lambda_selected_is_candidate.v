(* C15: whatever the selection returns is one of the lambdas found in the searched statements and its
   line span contains the definition line (for every argspec, also a wrong one). *)
From Coq Require Import List Arith Bool.
Import ListNotations.
Require Import MV.Lexer.LambdaSyntax MV.Lexer.LambdaSel MV.Lexer.LambdaSelProofs MV.Generated.C15_gen.

Theorem lambda_selected_is_candidate : forall nodes d spec c,
  select select_rules span_ops match_components nodes d spec = Found c ->
  In c (lambda_nodes nodes d) /\ spans span_ops d c = true.
Proof. intros. eapply select_found_is_candidate; eauto. vm_compute. reflexivity. Qed.
Print Assumptions lambda_selected_is_candidate.
