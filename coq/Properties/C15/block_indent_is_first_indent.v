(* C15: the block indentation that dedent_block strips is the indentation of the first logical line
   of the (unfolded) source: lines inside string literals, blank lines, comment lines and lines inside
   brackets are never taken for it. *)
From Coq Require Import List Ascii Bool.
Import ListNotations.
Require Import MV.Lexer.PyLex MV.Lexer.Dedent MV.Lexer.DedentProofs.

Theorem block_indent_is_first_indent : forall s, block_indent s = first_iindent (lex (unfold_cont s)).
Proof. exact block_indent_spec. Qed.
Print Assumptions block_indent_is_first_indent.
