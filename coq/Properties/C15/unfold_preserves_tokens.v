(* C15: removing every backslash-newline textually (parser._unfold_continuations) leaves the lexical
   item stream of the source unchanged -- every code character with its adjacency, every string
   literal byte for byte, every comment, newline and logical-line indentation -- provided the
   decidable guard unfold_safe holds: no backslash-newline inside a string literal or a comment or at
   a line start, and none that glues two significant characters together. *)
From Coq Require Import List Ascii String Bool.
Import ListNotations.
Require Import MV.Lexer.PyLex MV.Lexer.Dedent MV.Lexer.DedentProofs.

Theorem unfold_preserves_tokens : forall s, unfold_safe s = true -> lex (unfold_cont s) = lex s.
Proof. exact unfold_lex. Qed.

Local Open Scope string_scope.
Definition ex_src : list ascii := list_ascii_of_string "  x = f(1, \
      2) + \
   y  # c
".
Example unfold_nonvacuous : unfold_safe ex_src = true /\ unfold_cont ex_src <> ex_src.
Proof. split; [vm_compute; reflexivity|vm_compute; discriminate]. Qed.
Print Assumptions unfold_preserves_tokens.
