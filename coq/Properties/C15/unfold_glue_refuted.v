(* C15, known finding c15-unfold-glues-tokens: a continuation written directly between two tokens with no
   blank on either side -- `return not\<newline>a` with `a` in column 0 -- is removed textually, the two
   tokens become one (`nota`): a different name is read, silently.  Confirmed on the real parse_entity. *)
From Coq Require Import List Ascii Bool.
Import ListNotations.
Require Import MV.Lexer.PyLex MV.Lexer.Dedent.
From Coq Require Import String.
Local Open Scope string_scope.

Definition w_src : list ascii := list_ascii_of_string "def h(a):
    return not\
a
".
Theorem unfold_glue_refuted :
  exists s v, unfold_safe s = false /\ dedent_block s = Ok v /\
              indents_ok (List.length (block_indent s)) (lex s) = true /\
              code_items (lex v) <> code_items (lex s).
Proof.
  exists w_src. eexists. split; [vm_compute; reflexivity|]. split; [vm_compute; reflexivity|].
  split; [vm_compute; reflexivity|]. vm_compute. discriminate.
Qed.
Print Assumptions unfold_glue_refuted.
