(* C15, main theorem: for every source text s that satisfies the decidable guard unfold_safe and whose
   logical lines are all indented at least as far as the first one (true for the block of a definition),
   if dedent_block returns v then v has exactly the item stream of s -- all code characters and their
   adjacency (hence all tokens), all string literals byte-identical (also on under-indented lines), all
   comments and newlines -- except that every logical-line indentation has lost exactly its first
   |block indentation| characters.  block_indent s is the indentation of the first logical line
   (obligation block_indent_is_first_indent). *)
From Coq Require Import List Ascii Bool.
Import ListNotations.
Require Import MV.Lexer.PyLex MV.Lexer.Dedent MV.Lexer.DedentProofs.

Theorem dedent_preserves_tokens : forall s v,
  unfold_safe s = true ->
  dedent_block s = Ok v ->
  indents_ok (length (block_indent s)) (lex s) = true ->
  lex v = map (sub_indent (length (block_indent s))) (lex s).
Proof. exact dedent_lex. Qed.

From Coq Require Import String.
Local Open Scope string_scope.
Definition ex_src : list ascii := list_ascii_of_string "    def f(a,
  b):
        s = r'''x
 y\n'''  # c \ d
      # low
        return s + \
   a
".
Definition ex_out : list ascii := list_ascii_of_string "def f(a,
b):
    s = r'''x
 y\n'''  # c \ d
    # low
    return s +    a
".
Example dedent_nonvacuous :
  unfold_safe ex_src = true /\ dedent_block ex_src = Ok ex_out /\
  List.length (block_indent ex_src) = 4 /\ indents_ok 4 (lex ex_src) = true.
Proof. vm_compute. repeat split; reflexivity. Qed.
Print Assumptions dedent_preserves_tokens.
