(* C15: with the decision rules, span comparison and text normalisation generated from the current source,
   whenever the selection -- run on a FILE, i.e. on the tree parser.parse builds from the file text, whose line
   numbers are compared with co_firstlineno = a line number of the file -- returns a lambda c for a function
   object created by lambda t -- t occurs in a top-level statement that starts at or before the definition
   line d, its line span (in file lines) contains d, and the argspec handed to the comparison is what
   getfullargspec reports for t's signature -- then c is t, PROVIDED t has no positional-only parameter or the
   generated comparison takes positional-only parameters into account (comps_complete; the guard is exactly
   the known finding c15-lambda-posonly, see lambda_posonly_refuted).  For all files (any number of leading
   blank / whitespace-only lines `lead`), all lists of statements and lambdas (any number per line, on
   consecutive lines, nested, equal or different signatures): the selection returns the unique candidate
   spanning the line, else the unique one matching the signature, else raises.
   The proof needs norm_ok parse_norm (parse() hands the file text to ast.parse without dropping leading
   lines); `strip_would_substitute` shows that the statement is false for a parse() that strips its text. *)
From Coq Require Import List Arith Bool.
Import ListNotations.
Require Import MV.Lexer.LambdaSyntax MV.Lexer.LambdaSel MV.Lexer.LambdaSelProofs MV.Generated.C15_gen.

Theorem lambda_never_substituted : forall lead nodes d ln ls t c,
  sorted nodes = true -> In (ln, ls) nodes -> In t ls -> ln <= d -> l_min t <= d <= l_max t ->
  comps_complete match_components = true \/ s_posonly (l_sig t) = [] ->
  select_in_file select_rules span_ops match_components parse_norm lead nodes d (spec_of (l_sig t)) = Found c ->
  c = t.
Proof.
  intros. eapply (never_substituted_in_file select_rules span_ops match_components parse_norm); eauto;
    vm_compute; reflexivity.
Qed.

(* non-vacuity: two lambdas with different signatures on one line, the second one is asked for and found;
   two with the same signature: raises *)
Definition sx := mksig [] [1] [] [] [].
Definition sy := mksig [] [2] [] [] [].
Example found_second :
  select select_rules span_ops match_components [(1, []); (3, [mklam 0 3 3 sx; mklam 1 3 3 sy])] 3 sy
  = Found (mklam 1 3 3 sy).
Proof. vm_compute. reflexivity. Qed.
Example ambiguous_raises :
  select select_rules span_ops match_components [(3, [mklam 0 3 3 sx; mklam 1 3 3 sx])] 3 sx = Raised.
Proof. vm_compute. reflexivity. Qed.
(* the hypothesis on the parsed text is needed: a file that starts with one blank line and has two lambdas with
   the same signature on consecutive lines (2 and 3); were the text stripped before parsing, the object
   created on line 2 would be given the lambda of line 3 *)
Example strip_would_substitute :
  select_in_file select_rules span_ops match_components NormStrip 1
                 [(2, [mklam 0 2 2 sx]); (3, [mklam 1 3 3 sx])] 2 (spec_of sx) = Found (mklam 1 2 2 sx)
  /\ select_in_file select_rules span_ops match_components parse_norm 1
                 [(2, [mklam 0 2 2 sx]); (3, [mklam 1 3 3 sx])] 2 (spec_of sx) = Found (mklam 0 2 2 sx).
Proof. vm_compute. split; reflexivity. Qed.
Print Assumptions lambda_never_substituted.
