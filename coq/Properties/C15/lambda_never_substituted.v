(* C15: with the decision rules and span comparison generated from the current source, whenever the
   selection returns a lambda c for a function object created by lambda t -- t occurs in a top-level
   statement that starts at or before the definition line d, its line span contains d, and the argspec
   handed to the comparison is what getfullargspec reports for t's signature -- then c is t, PROVIDED t
   has no positional-only parameter or the generated comparison takes positional-only parameters into
   account (comps_complete; false for the unchanged source, true with fixes/C15-lambda-posonly-argspec.diff;
   the guard is exactly the known finding c15-lambda-posonly, see lambda_posonly_refuted).  For all lists of statements and
   lambdas (any number per line, nested, equal or different signatures): the selection returns the unique
   candidate spanning the line, else the unique one matching the signature, else raises. *)
From Coq Require Import List Arith Bool.
Import ListNotations.
Require Import MV.Lexer.LambdaSyntax MV.Lexer.LambdaSel MV.Lexer.LambdaSelProofs MV.Generated.C15_gen.

Theorem lambda_never_substituted : forall nodes d ln ls t c,
  sorted nodes = true -> In (ln, ls) nodes -> In t ls -> ln <= d -> l_min t <= d <= l_max t ->
  comps_complete match_components = true \/ s_posonly (l_sig t) = [] ->
  select select_rules span_ops match_components nodes d (spec_of (l_sig t)) = Found c -> c = t.
Proof.
  intros. eapply (never_substituted select_rules span_ops match_components); eauto; vm_compute; reflexivity.
Qed.

(* non-vacuity: two lambdas with different signatures on one line, the second one is asked for and found;
   two with the same signature: raises *)
Definition sx := mksig [] [1] [] [] [].
Definition sy := mksig [] [2] [] [] [].
Example found_second :
  select select_rules span_ops match_components [(1, []); (3, [mklam 0 3 3 sx; mklam 1 3 3 sy])] 3 sy
  = Found (mklam 1 3 3 sy).
Proof. vm_compute. reflexivity. Qed.
Example ambiguous_raises :
  select select_rules span_ops match_components [(3, [mklam 0 3 3 sx; mklam 1 3 3 sx])] 3 sx = Raised.
Proof. vm_compute. reflexivity. Qed.
Print Assumptions lambda_never_substituted.
