(* C15, known finding c15-unfold-in-comment: a comment that ends in a backslash swallows the following
   line: `x = 1  # note \<newline>x = 2` becomes one line whose comment contains `x = 2`; the code
   characters of the second statement are lost.  Confirmed on the real parse_entity on every run. *)
From Coq Require Import List Ascii Bool.
Import ListNotations.
Require Import MV.Lexer.PyLex MV.Lexer.Dedent.
From Coq Require Import String.
Local Open Scope string_scope.

Definition w_src : list ascii := list_ascii_of_string "    def g():
        x = 1  # note \
        x = 2
        return x
".
Theorem unfold_comment_refuted :
  exists s v, unfold_safe s = false /\ dedent_block s = Ok v /\
              indents_ok (List.length (block_indent s)) (lex s) = true /\
              code_items (lex v) <> code_items (lex s).
Proof.
  exists w_src. eexists. split; [vm_compute; reflexivity|]. split; [vm_compute; reflexivity|].
  split; [vm_compute; reflexivity|]. vm_compute. discriminate.
Qed.
Print Assumptions unfold_comment_refuted.
