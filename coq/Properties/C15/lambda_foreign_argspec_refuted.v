(* C15, known finding c15-lambda-signature-override: lambda_never_substituted assumes that the argspec handed
   to the comparison is the one of the creating lambda (spec_of (l_sig t)).  inspect.getfullargspec honours a
   `__signature__` attribute of the function object; when that attribute holds the signature of ANOTHER lambda
   on the line, that other lambda is returned:
       p, q = _setsig(lambda *a: 1, tgt), (lambda v: 2)        with tgt(v)
   Confirmed on the real parse_entity on every run (corpus/C15/kf_lambda_signature_override.py). *)
From Coq Require Import List Arith Bool.
Import ListNotations.
Require Import MV.Lexer.LambdaSyntax MV.Lexer.LambdaSel MV.Generated.C15_gen.

Definition w_p := mklam 0 1 1 (mksig [] [] [1] [] []).
Definition w_q := mklam 1 1 1 (mksig [] [2] [] [] []).
Theorem lambda_foreign_argspec_refuted :
  exists nodes d ln ls t c spec,
    sorted nodes = true /\ In (ln, ls) nodes /\ In t ls /\ ln <= d /\ l_min t <= d <= l_max t /\
    spec <> spec_of (l_sig t) /\
    select select_rules span_ops match_components nodes d spec = Found c /\ c <> t.
Proof.
  exists [(1, [w_p; w_q])], 1, 1, [w_p; w_q], w_p, w_q, (spec_of (l_sig w_q)).
  repeat split; try (vm_compute; reflexivity); try (left; reflexivity); try (vm_compute; auto; fail);
    try discriminate.
Qed.
Print Assumptions lambda_foreign_argspec_refuted.
