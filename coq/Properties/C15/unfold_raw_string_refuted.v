(* C15, known finding c15-unfold-in-string: without the guard the statement is false on the faithful model.
   A backslash-newline inside a string literal is removed by _unfold_continuations: the raw string
   r'''a\<newline>b''' becomes r'''ab''' (the same happens to '''a\\<newline>b''', whose value loses the
   newline and gains an escape).  Confirmed on the real parse_entity on every run. *)
From Coq Require Import List Ascii Bool.
Import ListNotations.
Require Import MV.Lexer.PyLex MV.Lexer.Dedent.
From Coq Require Import String.
Local Open Scope string_scope.

Definition w_src : list ascii := list_ascii_of_string "    def f():
        return r'''a\
b'''
".
Theorem unfold_raw_string_refuted :
  exists s v, unfold_safe s = false /\ dedent_block s = Ok v /\
              indents_ok (List.length (block_indent s)) (lex s) = true /\
              string_items (lex v) <> string_items (lex s).
Proof.
  exists w_src. eexists. split; [vm_compute; reflexivity|]. split; [vm_compute; reflexivity|].
  split; [vm_compute; reflexivity|]. vm_compute. discriminate.
Qed.
Print Assumptions unfold_raw_string_refuted.
