(* C15, known finding c15-lambda-posonly: while the generated signature comparison ignores positional-only
   parameters (comps_complete false -- the unchanged source), the guard of lambda_never_substituted cannot
   be dropped:   p, q = (lambda a, /: 1), (lambda a: 2)   -- asked for p's source, the selection returns q
   (both span the line; only q's node.args.args equals getfullargspec(p).args = ['a']).
   Confirmed on the real parse_entity on every run.  With the fix the premise is false and the
   statement holds vacuously. *)
From Coq Require Import List Arith Bool.
Import ListNotations.
Require Import MV.Lexer.LambdaSyntax MV.Lexer.LambdaSel MV.Generated.C15_gen.

Definition w_p := mklam 0 1 1 (mksig [1] [] [] [] []).
Definition w_q := mklam 1 1 1 (mksig [] [1] [] [] []).
Theorem lambda_posonly_refuted :
  comps_complete match_components = false ->
  exists nodes d ln ls t c,
    sorted nodes = true /\ In (ln, ls) nodes /\ In t ls /\ ln <= d /\ l_min t <= d <= l_max t /\
    select select_rules span_ops match_components nodes d (spec_of (l_sig t)) = Found c /\ c <> t.
Proof.
  intro H.
  exists [(1, [w_p; w_q])], 1, 1, [w_p; w_q], w_p, w_q.
  vm_compute in H.
  first [ discriminate H
        | repeat split; try (vm_compute; reflexivity); try (left; reflexivity); try (vm_compute; auto; fail);
          try discriminate ].
Qed.
Print Assumptions lambda_posonly_refuted.
