(* C02 (dataflow form): for every control-flow statement, every simple name x bound in one of its
   bodies: if x is live after the statement it is carried in the state tuple AND is among the declared
   outputs (index < nouts); if x is live on entry (read before being written, or read by a later
   iteration) it is carried; if x is declared nonlocal or global in the function it is carried and is
   among the declared outputs as well (it stays observable after the function returns) -- whatever the
   liveness sets are.  Conversely nothing else is carried.  The selection formulas
   (basic_cond_gen, input_only_gen) are translated from control_flow.py on every run.
   Together with C07 (a value read later before being overwritten is live-out) this is the property's
   "every variable ... observable afterwards or on a later iteration is carried".
   Composite names (a.b, d['k']) follow the code's own criterion (all support symbols live-in) and are
   validated by the oracle only: state_complete_partial in that respect. *)
From Coq Require Import List String Bool Arith.
Import ListNotations.
Require Import MV.Ctrl.BlockSyntax MV.Generated.C02_gen MV.Ctrl.BlockVars MV.Ctrl.BlockVarsProofs.

Theorem state_complete : forall (c : ctx) (x : name), In x (modified c) ->
  (In x (live_out c) -> exists i, index_of x (state c) = Some i /\ i < nouts c)
  /\ (In x (live_in c) -> In x (state c))
  /\ (In x (fn_nonlocals c) \/ In x (fn_globals c) -> exists i, index_of x (state c) = Some i /\ i < nouts c).
Proof. exact state_complete_lemma. Qed.

Theorem state_only_what_is_needed : forall (c : ctx) (x : name), In x (state c) ->
  In x (modified c) /\ (In x (live_in c) \/ In x (live_out c) \/ In x (fn_nonlocals c) \/ In x (fn_globals c)).
Proof. exact state_sound. Qed.

Example state_nonvacuous :
  let c := mkctx ["x"; "y"; "t"; "g"]%string ["y"]%string ["x"]%string [] ["g"]%string in
  state c = ["x"; "g"; "y"]%string /\ nouts c = 2 /\
  (* a declared global that is read and written by the statement but dead inside the function is an output *)
  let c2 := mkctx ["g"]%string ["g"]%string [] [] ["g"]%string in state c2 = ["g"]%string /\ nouts c2 = 1.
Proof. vm_compute; repeat split; reflexivity. Qed.
Print Assumptions state_complete.
Print Assumptions state_only_what_is_needed.
