(* C02 (semantic form): a functional (tracing) operator backend that touches the enclosing function's
   variables only through get_state / set_state -- running both branches of a conditional, the second
   after the state variables have been reset, and keeping the first nouts entries of the chosen branch;
   or re-injecting the carried state before every loop iteration into a store whose other variables
   hold whatever the out-of-band tracing of the bodies left there -- computes on every variable that
   is live after the statement exactly what the original statement (the default Python operators)
   computes.  The state tuple and nouts are [state c] / [nouts c] of Ctrl/BlockVars.v, i.e. the selection
   formulas translated from control_flow.py on THIS run; the three facts used about them are exactly the
   conclusions of state_complete.  Hypotheses that remain, each the subject of another property:
     writes_only  -- a body assigns only names in its modified set              (activity analysis, C08)
     respects / test_respects -- what liveness soundness means for a body/test  (C07)
     incl live_out live_in for loops -- the loop header kills nothing (C07's transfer equation; for `for`
       loops the implementation violates it for the loop target: known finding for-target-killed-...)
   Bodies are arbitrary functions on stores, values an arbitrary type (Undefined is a value), loops run
   any number of iterations (fuel exhaustion = divergence is matched by divergence), garbage is arbitrary
   on assigned variables.  Not covered: composite state (a.b, d[k]), exceptions inside bodies. *)
From Coq Require Import List String Bool Arith.
Import ListNotations.
Require Import MV.Ctrl.BlockSyntax MV.Generated.C02_gen MV.Ctrl.BlockVars MV.Ctrl.BlockVarsProofs
               MV.Ctrl.Tracing MV.Ctrl.TracingProofs.

Theorem tracing_if_sound : forall (val : Type) (c : ctx) (cond : bool) (body orelse : block val) (s : store val),
  writes_only val (modified c) body -> writes_only val (modified c) orelse ->
  respects val (live_in c) (live_out c) orelse ->
  agree val (live_out c) (if_imp val cond body orelse s) (if_fun val (state c) (nouts c) cond body orelse s).
Proof.
  intros val c cond body orelse s Wb Wo Ro.
  eapply (if_fun_agrees_gen val (modified c) (live_in c) (live_out c) (state c) (firstn (nouts c) (state c))).
  - apply carried_in_of_state_complete.
  - apply outputs_of_state_complete.
  - reflexivity.
  - exact Wb.
  - exact Wo.
  - exact Ro.
Qed.

Theorem tracing_while_sound : forall (val : Type) (c : ctx) (test : store val -> bool) (body : block val)
    (s0 : store val) (garbage : nat -> store val) (fuel : nat),
  writes_only val (modified c) body -> respects val (live_in c) (live_in c) body ->
  test_respects val (live_in c) test -> incl (live_out c) (live_in c) ->
  (forall k x, ~ In x (modified c) -> garbage k x = s0 x) ->
  match while_imp val fuel test body s0, while_fun val fuel 0 (state c) garbage test body s0 with
  | Some r, Some r' => agree val (live_out c) r r'
  | None, None => True
  | _, _ => False
  end.
Proof.
  intros val c test body s0 garbage fuel Wb Rb Rt Hio Hg.
  eapply (while_fun_agrees_gen val (modified c) (live_in c) (live_out c) (state c) s0 garbage).
  - apply carried_in_of_state_complete.
  - exact Hio.
  - exact Hg.
  - exact Wb.
  - exact Rb.
  - exact Rt.
  - split; [intros x _; reflexivity | intros x _; reflexivity].
Qed.

Theorem tracing_for_sound : forall (val : Type) (c : ctx) (test : store val -> bool) (body : val -> block val)
    (s0 : store val) (garbage : nat -> store val) (items : list val),
  (forall v, writes_only val (modified c) (body v)) -> (forall v, respects val (live_in c) (live_in c) (body v)) ->
  test_respects val (live_in c) test -> incl (live_out c) (live_in c) ->
  (forall k x, ~ In x (modified c) -> garbage k x = s0 x) ->
  agree val (live_out c) (for_imp val items test body s0) (for_fun val items 0 (state c) garbage test body s0).
Proof.
  intros val c test body s0 garbage items Wb Rb Rt Hio Hg.
  eapply (for_fun_agrees_gen val (modified c) (live_in c) (live_out c) (state c) s0 garbage).
  - apply carried_in_of_state_complete.
  - exact Hio.
  - exact Hg.
  - exact Wb.
  - exact Rb.
  - exact Rt.
  - split; [intros x _; reflexivity | intros x _; reflexivity].
Qed.

(* the protocol of the backend the check injects into the real pipeline (tools/props/c02.py): the body is
   run once from the entry store, the state variables are reset, the loop then runs on that store *)
Theorem tracing_harness_loops_sound : forall (val : Type) (c : ctx) (test : store val -> bool),
  test_respects val (live_in c) test -> incl (live_out c) (live_in c) ->
  (forall (body : block val) (s0 : store val) (fuel : nat),
     writes_only val (modified c) body -> respects val (live_in c) (live_in c) body ->
     match while_imp val fuel test body s0, while_harness val fuel (state c) test body s0 with
     | Some r, Some r' => agree val (live_out c) r r'
     | None, None => True
     | _, _ => False
     end)
  /\ (forall (body : val -> block val) (s0 : store val) (items : list val) (dflt : val),
     (forall v, writes_only val (modified c) (body v)) -> (forall v, respects val (live_in c) (live_in c) (body v)) ->
     agree val (live_out c) (for_imp val items test body s0) (for_harness val items dflt (state c) test body s0)).
Proof.
  intros val c test Rt Hio. split.
  - intros body s0 fuel Wb Rb. unfold while_harness.
    apply (while_imp_respects val (live_in c) (live_out c) Hio test body Rb Rt).
    apply (traced_start val (modified c) (live_in c) (state c) (carried_in_of_state_complete c)). exact Wb.
  - intros body s0 items dflt Wb Rb. unfold for_harness.
    apply (for_imp_respects val (live_in c) (live_out c) Hio test body Rb Rt).
    apply (traced_start val (modified c) (live_in c) (state c) (carried_in_of_state_complete c)). apply Wb.
Qed.

(* ---------------------------------------------------------------- the hypotheses are satisfiable, and
   the state tuple is what makes the statement true *)
Local Open Scope string_scope.
Definition ex_c : ctx := mkctx ["x"; "n"; "t"] ["x"; "n"] ["x"] [] [].
Definition ex_body : block nat := fun s y =>
  if String.eqb y "x" then s "x" + s "n" else if String.eqb y "n" then S (s "n") else
  if String.eqb y "t" then 99 else s y.
Definition ex_test : store nat -> bool := fun s => Nat.ltb (s "n") 3.
Definition ex_s0 : store nat := fun y => if String.eqb y "x" then 10 else 0.
Definition ex_garbage : nat -> store nat := fun k y =>
  if String.eqb y "x" then 777 else if String.eqb y "n" then 555 + k else if String.eqb y "t" then 333 else ex_s0 y.

Example tracing_nonvacuous :
  state ex_c = ["x"; "n"] /\
  writes_only nat (modified ex_c) ex_body /\ respects nat (live_in ex_c) (live_in ex_c) ex_body /\
  test_respects nat (live_in ex_c) ex_test /\ incl (live_out ex_c) (live_in ex_c) /\
  (forall k x, ~ In x (modified ex_c) -> ex_garbage k x = ex_s0 x) /\
  option_map (fun r => r "x") (while_imp nat 10 ex_test ex_body ex_s0) = Some 13 /\
  option_map (fun r => r "x") (while_fun nat 10 0 (state ex_c) ex_garbage ex_test ex_body ex_s0) = Some 13 /\
  (* with the loop counter n missing from the carried state the backend computes something else *)
  option_map (fun r => r "x") (while_fun nat 10 0 ["x"] ex_garbage ex_test ex_body ex_s0) <> Some 13.
Proof.
  split; [vm_compute; reflexivity|].
  split.
  { intros s x Hx. unfold ex_body. cbn in Hx.
    destruct (String.eqb x "x") eqn:E1; [apply String.eqb_eq in E1; exfalso; apply Hx; auto|].
    destruct (String.eqb x "n") eqn:E2; [apply String.eqb_eq in E2; exfalso; apply Hx; auto|].
    destruct (String.eqb x "t") eqn:E3; [apply String.eqb_eq in E3; exfalso; apply Hx; auto|].
    reflexivity. }
  split.
  { intros s t Ha y Hy. cbn in Hy.
    assert (Hx : s "x" = t "x") by (apply Ha; cbn; auto).
    assert (Hn : s "n" = t "n") by (apply Ha; cbn; auto).
    destruct Hy as [<-|[<-|[]]]; unfold ex_body; cbn; congruence. }
  split.
  { intros s u Ha. unfold ex_test. rewrite (Ha "n"); [reflexivity | cbn; auto]. }
  split.
  { intros y Hy. cbn in *. destruct Hy as [<-|[]]. auto. }
  split.
  { intros k x Hx. unfold ex_garbage. cbn in Hx.
    destruct (String.eqb x "x") eqn:E1; [apply String.eqb_eq in E1; exfalso; apply Hx; auto|].
    destruct (String.eqb x "n") eqn:E2; [apply String.eqb_eq in E2; exfalso; apply Hx; auto|].
    destruct (String.eqb x "t") eqn:E3; [apply String.eqb_eq in E3; exfalso; apply Hx; auto|].
    reflexivity. }
  split; [vm_compute; reflexivity|].
  split; [vm_compute; reflexivity|].
  vm_compute. discriminate.
Qed.

Print Assumptions tracing_if_sound.
Print Assumptions tracing_while_sound.
Print Assumptions tracing_for_sound.
Print Assumptions tracing_harness_loops_sound.
