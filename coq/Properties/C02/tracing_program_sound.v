(* C02 (semantic form, whole programs): for every structured program -- opaque user statements, if / while /
   for over blocks, ANY nesting depth -- whose loop annotations are closed (ok_b: what C07's certificate
   establishes for the real analysis; user statements write only their targets with values that depend only
   on what they read), every pair of stores that agree on what is live at entry, and every terminating run:
   executing EVERY control statement through a tracing backend (both branches run, second after set_state of
   the entry values, first nouts entries of the chosen branch kept; loop bodies traced out of band, state
   reset, loop run on that store; nested statements traced the same way inside the bodies), with the state
   tuple and nouts of every statement computed by the selection formulas generated from control_flow.py on
   this run from the statement's real context, ends in a store that agrees with the original program's on
   every variable live at the exit.  nl / gl (names declared nonlocal / global) and the value type are
   arbitrary.  The second theorem is the executable form the correspondence with the real pipeline uses:
   a concrete program that passes the boolean checker and on which both interpreters terminate returns the
   same values under the tracing backend as natively.
   Not covered: jumps (lowered to flags before this pass: C01), exceptions inside bodies, composite state. *)
From Coq Require Import List String Bool Arith NArith.
Import ListNotations.
Require Import MV.Ctrl.BlockSyntax MV.Generated.C02_gen MV.Ctrl.BlockVars MV.Ctrl.Tracing MV.Ctrl.TracingProg
               MV.Ctrl.TracingProgProofs MV.Ctrl.TracingProgExec MV.Ctrl.TracingProgExecProofs.

Theorem tracing_program_sound : forall (val : Type) (nl gl : list name) (dflt : val) (b : block val) (O : list name)
    (s t r r' : store val),
  ok_b val b O -> agree val (live_b val b O) s t ->
  imp_b val b s r -> fun_b val nl gl dflt b O t r' -> agree val O r r'.
Proof. intros val nl gl dflt. exact (proj2 (tracing_program_agrees val nl gl dflt)). Qed.

Theorem tracing_program_sound_exec : forall (fuel : nat) (a b c : N) (prog : cblock) (ret : list name) (r ri : store N),
  chk_b N (compile_block prog) ret = true ->
  frun_b N [] [] 0%N fuel (compile_block prog) ret (init_store a b c) = Some r ->
  irun_b N fuel (compile_block prog) (init_store a b c) = Some ri ->
  agree N ret ri r.
Proof. exact concrete_tracing_agrees. Qed.

(* non-vacuity:   x = T(1, a); n = 0
                  while n < 3 and P(2, n):  n += 1; if P(3, x, n): x = T(4, x, b); t = T(5, x) else: y = T(6, c)
                  for i in range(7 % 4):  x = T(8, x, i)
                  return x, n
   t and y are dead (local to the generated body functions), x n are loop state of both loops *)
Local Open Scope string_scope.
Definition ex_prog : cblock :=
  CCons (CAsg 1 ["a"] "x") (CCons (CConst "n" 0)
  (CCons (CWhile ["x"; "n"; "b"; "c"] (TBound "n" 3 2 ["n"])
      (CCons (CInc "n") (CCons (CIf (TP 3 ["x"; "n"])
          (CCons (CAsg 4 ["x"; "b"] "x") (CCons (CAsg 5 ["x"] "t") CNil))
          (CCons (CAsg 6 ["c"] "y") CNil)) CNil)))
  (CCons (CFor ["x"; "n"] 7 "i" (CCons (CAsg 8 ["x"; "i"] "x") CNil)) CNil))).
Example tracing_program_nonvacuous :
  chk_b N (compile_block ex_prog) ["x"; "n"] = true /\
  option_map (fun r => map r ["x"; "n"]) (irun_b N 40 (compile_block ex_prog) (init_store 1 2 3))
  = option_map (fun r => map r ["x"; "n"]) (frun_b N [] [] 0%N 40 (compile_block ex_prog) ["x"; "n"] (init_store 1 2 3))
  /\ option_map (fun r => map r ["n"]) (irun_b N 40 (compile_block ex_prog) (init_store 1 2 3)) = Some [2%N]
  (* the dead variable y differs: the backend leaves tracing garbage where the original has a value *)
  /\ option_map (fun r => r "y") (irun_b N 40 (compile_block ex_prog) (init_store 1 2 3))
     <> option_map (fun r => r "y") (frun_b N [] [] 0%N 40 (compile_block ex_prog) ["x"; "n"] (init_store 1 2 3)).
Proof. vm_compute. repeat split; try reflexivity. discriminate. Qed.

Print Assumptions tracing_program_sound.
Print Assumptions tracing_program_sound_exec.

(* ------------------------------------------------------------------ the stronger protocol: before every test and
   iteration the carried state is re-injected into a store holding ARBITRARY values on the names the loop body
   assigns (a backend that traces the body as a function of the carried state alone); nested statements likewise *)
Require Import MV.Ctrl.TracingProgG.

Theorem tracing_program_sound_reinjected : forall (val : Type) (nl gl : list name) (b : block val) (O : list name)
    (s t r r' : store val),
  ok_b val b O -> agree val (live_b val b O) s t ->
  imp_b val b s r -> gfun_b val nl gl b O t r' -> agree val O r r'.
Proof. intros val nl gl. exact (proj2 (tracing_program_agrees_g val nl gl)). Qed.

(* non-vacuity of the re-injecting semantics:  while n < 1: n += 1 ; t = 5   with garbage 7 / 9 on n and t *)
Definition g_body : block nat :=
  BCons nat (SAtom nat ["n"] ["n"] (fun s z => if String.eqb z "n" then S (s "n") else s z))
 (BCons nat (SAtom nat [] ["t"] (fun s z => if String.eqb z "t" then 5 else s z)) (BNil nat)).
Definition g_prog : stmt nat := SWhile nat ["n"] ["n"] (fun s => Nat.ltb (s "n") 1) g_body.
Definition g_garbage (k : nat) (s : store nat) : store nat :=
  fun z => if String.eqb z "n" then k else if String.eqb z "t" then k + 1 else s z.
Example reinjected_nonvacuous :
  state (ctx_of nat [] [] g_prog ["n"]) = ["n"] /\
  exists r, gfun_s nat [] [] g_prog ["n"] (fun _ => 0) r /\ r "n" = 1 /\ r "t" = 10.
Proof.
  split; [vm_compute; reflexivity|].
  eexists. split.
  - unfold g_prog. eapply GWhile.
    eapply GLoopT with (g := g_garbage 7 (fun _ => 0)).
    + intros x Hx. unfold g_garbage. cbn in Hx.
      destruct (String.eqb x "n") eqn:E1; [apply String.eqb_eq in E1; exfalso; apply Hx; auto|].
      destruct (String.eqb x "t") eqn:E2; [apply String.eqb_eq in E2; exfalso; apply Hx; auto|]. reflexivity.
    + vm_compute. reflexivity.
    + unfold g_body. eapply GCons; [apply GAtom|]. eapply GCons; [apply GAtom|]. apply GNil.
    + eapply GLoopF with (g := g_garbage 9 _).
      * intros x Hx. unfold g_garbage. cbn in Hx.
        destruct (String.eqb x "n") eqn:E1; [apply String.eqb_eq in E1; exfalso; apply Hx; auto|].
        destruct (String.eqb x "t") eqn:E2; [apply String.eqb_eq in E2; exfalso; apply Hx; auto|]. reflexivity.
      * vm_compute. reflexivity.
  - vm_compute. split; reflexivity.
Qed.

Print Assumptions tracing_program_sound_reinjected.
