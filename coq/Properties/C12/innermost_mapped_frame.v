(* C12: _stack_trace_inside_mapped_code ends with the innermost frame that the source map knows
   (translated to its origin); before it come, innermost first, exactly the more-inner frames,
   summarised (see summary_lists_nonconverter_frames).  pre = the enclosing frames, ignored. *)
From Coq Require Import List String Bool Arith.
Import ListNotations.
Require Import MV.Errors.StackTrace MV.Errors.SourceMap MV.Errors.ExcSyntax MV.Errors.ExcRule MV.Generated.C12_gen MV.Errors.ErrorsProofs.
Local Open Scope string_scope.
Local Open Scope list_scope.

Theorem innermost_mapped_frame : forall (pre : list frame) (fm : frame) (post : list frame)
    (sm : source_map) (conv : string) (o : origin),
  mapped sm fm = Some o ->               (* fm is in the map *)
  unmapped_in sm post = true ->          (* no more-inner frame is *)
  stack_trace_inside (pre ++ fm :: post) sm conv = summarise (rev post) conv ++ [fi_mapped o].
Proof. exact innermost_mapped_frame_lemma. Qed.

(* non-vacuity: a three-frame traceback: generated frame (mapped), converter frame, library frame *)
Example innermost_mapped_frame_example :
  stack_trace_inside [mkframe "gen.py" 7 "tf__f" "x"; mkframe "api.py" 3 "converted_call" "c"; mkframe "lib.py" 9 "g" "boom"]
                     [(("gen.py", 7), mkorigin "user.py" 2 4 "f" "x = g()")] "api.py"
  = [mkfi "lib.py" 9 "g" "boom" false true; mkfi "user.py" 2 "f" "x = g()" true false].
Proof. vm_compute. reflexivity. Qed.
Print Assumptions innermost_mapped_frame.
Print Assumptions innermost_mapped_frame_example.
