(* C12: the exception re-creation rule, for the if-chains GENERATED from
   ErrorMetadataBase.create_exception and the pass-through tuple of _ErrorMetadata.create_exception
   (all 16 truth assignments of the four tests enumerated and lifted):
   same type iff the type is passed through, passes the code's plain-constructor test, or is in
   KNOWN_STRING_CONSTRUCTOR_ERRORS; KeyError becomes the message-printing KeyError subclass;
   everything else becomes StagingError. *)
From Coq Require Import List String Bool Arith.
Import ListNotations.
Require Import MV.Errors.StackTrace MV.Errors.SourceMap MV.Errors.ExcSyntax MV.Errors.ExcRule MV.Generated.C12_gen MV.Errors.ErrorsProofs.
Local Open Scope string_scope.
Local Open Scope list_scope.

Theorem exception_type_rule : forall v : valuation,
  is_key v = false ->
  api_create base_rules v = if in_pass v || fact v || in_known v then Same else Staging.
Proof.
  intros v Hk. rewrite rules_ok_sound; [|vm_compute; reflexivity|exact Hk].
  unfold spec_create. rewrite Hk. reflexivity.
Qed.

(* KeyError is never staged; unless it is listed or passes the test it becomes the subclass *)
Theorem exception_type_rule_key_error : forall v : valuation,
  is_key v = true ->
  api_create base_rules v <> Staging /\
  (in_pass v || fact v || in_known v = false -> api_create base_rules v = MultilineKeyError).
Proof. apply rules_ok_key. vm_compute. reflexivity. Qed.

Theorem exception_type_rule_on_types : forall t : exc_type,
  mem (et_name t) key_error_types = false ->
  create_for pass_through_types known_string_constructor_errors key_error_types base_rules t =
  if mem (et_name t) pass_through_types || et_fact t || mem (et_name t) known_string_constructor_errors
  then Same else Staging.
Proof.
  intros t Hn. unfold create_for. rewrite exception_type_rule by (apply not_key; exact Hn). reflexivity.
Qed.
Print Assumptions exception_type_rule.
Print Assumptions exception_type_rule_key_error.
Print Assumptions exception_type_rule_on_types.
