(* C12: create_source_map.  es = the (generated location, ORIGIN) pairs in walk order.
   Under "one statement per line" (all nodes printed on one generated line come from the same
   original line) every generated line that carries an annotated node is in the map and is sent
   to that original file and line. *)
From Coq Require Import List String Bool Arith.
Import ListNotations.
Require Import MV.Errors.StackTrace MV.Errors.SourceMap MV.Errors.ExcSyntax MV.Errors.ExcRule MV.Generated.C12_gen MV.Errors.ErrorsProofs.
Local Open Scope string_scope.
Local Open Scope list_scope.

Theorem source_map_sends_line_to_origin : forall (es : list (key * origin)) (k : key) (o : origin),
  one_origin_per_line es = true -> In (k, o) es ->
  exists o', lookup (create_source_map es) k = Some o' /\ o_file o' = o_file o /\ o_line o' = o_line o.
Proof. exact source_map_line_lemma. Qed.
Print Assumptions source_map_sends_line_to_origin.
