(* C12: the summary of unmapped frames consists of exactly the frames that are not in the
   converter file (malt/impl/api.py), in scanning order, unchanged up to the two marker flags,
   and none of them is marked as converted. *)
From Coq Require Import List String Bool Arith.
Import ListNotations.
Require Import MV.Errors.StackTrace MV.Errors.SourceMap MV.Errors.ExcSyntax MV.Errors.ExcRule MV.Generated.C12_gen MV.Errors.ErrorsProofs.
Local Open Scope string_scope.
Local Open Scope list_scope.

Theorem summary_lists_nonconverter_frames : forall (fr : list frame) (conv : string),
  map unflag (summarise fr conv) = map fi_plain (filter (fun f => negb (in_converter conv f)) fr)
  /\ forallb (fun p => negb (fi_converted p)) (summarise fr conv) = true.
Proof.
  intros fr conv. split; [apply summarise_frames|].
  unfold summarise. rewrite forallb_forall. intros x Hx. apply in_rev in Hx.
  pose proof (scan_nomap_not_converted fr conv [] eq_refl) as H. rewrite forallb_forall in H. apply H. exact Hx.
Qed.
Print Assumptions summary_lists_nonconverter_frames.
