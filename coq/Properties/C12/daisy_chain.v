(* C12: daisy chaining across nested converted calls (induction on the nesting depth).
   outer = the enclosing converted functions in call order, inner = the innermost one,
   tail = the frames below it.  Every level's segment has a frame its own map knows; no map knows a
   frame below its level (each conversion has its own generated file).  Then the final
   translated_stack is the innermost level's stack followed by ONE frame per enclosing converted
   function, innermost first, each being that function's own innermost mapped frame; the message
   is the one recorded at the innermost level.  attach_drop is the generated [n:] of
   _attach_error_metadata; the proof needs it to be 1. *)
From Coq Require Import List String Bool Arith.
Import ListNotations.
Require Import MV.Errors.StackTrace MV.Errors.SourceMap MV.Errors.ExcSyntax MV.Errors.ExcRule MV.Generated.C12_gen MV.Errors.ErrorsProofs.
Local Open Scope string_scope.
Local Open Scope list_scope.

Theorem daisy_chain : forall (outer : list level) (inner : level) (tail : list frame) (msg conv : string),
  forallb has_mapped (outer ++ [inner]) = true ->
  separated (outer ++ [inner]) tail = true ->
  run attach_drop (outer ++ [inner]) tail msg conv =
  Meta (stack_trace_inside (lv_seg inner ++ tail) (lv_sm inner) conv ++ flat_map own_frame (rev outer)) msg.
Proof. exact daisy_chain_lemma. Qed.
Print Assumptions daisy_chain.
