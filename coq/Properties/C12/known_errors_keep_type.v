(* C12: generated tables.  Every builtin of required_known (builtins that take a message but never
   pass an identity test on __init__) is in the generated KNOWN_STRING_CONSTRUCTOR_ERRORS and so
   keeps its type; KeyError is neither known nor passed through, so it becomes the
   message-printing KeyError subclass; StagingError is passed through; a type that fails all tests
   (e.g. a user exception with its own constructor) is re-raised as StagingError. *)
From Coq Require Import List String Bool Arith.
Import ListNotations.
Require Import MV.Errors.StackTrace MV.Errors.SourceMap MV.Errors.ExcSyntax MV.Errors.ExcRule MV.Generated.C12_gen MV.Errors.ErrorsProofs.
Local Open Scope string_scope.
Local Open Scope list_scope.

Lemma generated_rules_ok : rules_ok base_rules = true.
Proof. vm_compute. reflexivity. Qed.
Lemma generated_tables_ok : tables_ok pass_through_types known_string_constructor_errors key_error_types = true.
Proof. vm_compute. reflexivity. Qed.

Theorem known_errors_keep_type : forall t : exc_type,
  In (et_name t) required_known ->
  create_for pass_through_types known_string_constructor_errors key_error_types base_rules t = Same.
Proof. exact (known_keep_type_lemma _ _ _ _ generated_rules_ok generated_tables_ok). Qed.

Theorem key_error_stays_key_error : forall t : exc_type,
  mem (et_name t) key_error_types = true -> et_fact t = false ->
  create_for pass_through_types known_string_constructor_errors key_error_types base_rules t = MultilineKeyError.
Proof. exact (key_error_lemma _ _ _ _ generated_rules_ok generated_tables_ok). Qed.

Theorem staging_error_passes_through : forall t : exc_type,
  et_name t = "malt.impl.api.StagingError"%string ->
  create_for pass_through_types known_string_constructor_errors key_error_types base_rules t = Same.
Proof. exact (staging_passes_lemma _ _ _ _ generated_rules_ok generated_tables_ok). Qed.

Theorem custom_constructor_is_staged : forall t : exc_type,
  mem (et_name t) pass_through_types = false -> et_fact t = false ->
  mem (et_name t) known_string_constructor_errors = false -> mem (et_name t) key_error_types = false ->
  create_for pass_through_types known_string_constructor_errors key_error_types base_rules t = Staging.
Proof. exact (staged_lemma _ _ _ _ generated_rules_ok). Qed.
Print Assumptions known_errors_keep_type.
Print Assumptions key_error_stays_key_error.
Print Assumptions staging_error_passes_through.
Print Assumptions custom_constructor_is_staged.
