(* C12: type_survives_further_wrappers INSTANTIATED on the tables generated from the source of this
   run: key_error_types (from the KeyError test of ErrorMetadataBase.create_exception) satisfies
   tables_ok and lists the message-printing KeyError subclass (both by computation on the generated
   file), hence the type that leaves the first malt.convert wrapper leaves every further one.
   Reverting the repair `preferred_type in (KeyError, MultilineMessageKeyError)` to
   `preferred_type is KeyError` makes the second premise false and this file stops compiling. *)
From Coq Require Import List String Bool Arith.
Import ListNotations.
Require Import MV.Errors.StackTrace MV.Errors.SourceMap MV.Errors.ExcSyntax MV.Errors.ExcRule MV.Generated.C12_gen MV.Errors.ErrorsProofs.
Local Open Scope string_scope.
Local Open Scope list_scope.

Theorem keyerror_survives_nested_wrappers : forall (t : exc_type) (f2 : bool),
  let n1 := name_after t (create_for pass_through_types known_string_constructor_errors key_error_types base_rules t) in
  (n1 = et_name t -> f2 = et_fact t) ->
  (n1 = multiline_name -> f2 = false) ->
  name_after (mkexc n1 f2 false)
             (create_for pass_through_types known_string_constructor_errors key_error_types base_rules (mkexc n1 f2 false)) = n1.
Proof.
  apply rewrap_step; vm_compute; reflexivity.
Qed.

(* on the generated tables a KeyError crossing three wrappers is still a KeyError *)
Example generated_keyerror_through_three_wrappers :
  through pass_through_types known_string_constructor_errors key_error_types base_rules
          "builtins.KeyError" [false; false; false] = multiline_name.
Proof. vm_compute. reflexivity. Qed.
Print Assumptions keyerror_survives_nested_wrappers.
Print Assumptions generated_keyerror_through_three_wrappers.
