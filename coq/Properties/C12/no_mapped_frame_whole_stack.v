(* C12: if no frame is in the source map the entire traceback is summarised *)
From Coq Require Import List String Bool Arith.
Import ListNotations.
Require Import MV.Errors.StackTrace MV.Errors.SourceMap MV.Errors.ExcSyntax MV.Errors.ExcRule MV.Generated.C12_gen MV.Errors.ErrorsProofs.
Local Open Scope string_scope.
Local Open Scope list_scope.

Theorem no_mapped_frame_whole_stack : forall (tb : list frame) (sm : source_map) (conv : string),
  unmapped_in sm tb = true -> stack_trace_inside tb sm conv = summarise (rev tb) conv.
Proof. exact no_mapped_frame_lemma. Qed.
Print Assumptions no_mapped_frame_whole_stack.
