(* C12: daisy_chain and innermost_mapped_frame combined: the stack that reaches the caller is
   (summary of the frames below the innermost converted statement, innermost first)
   followed by one origin frame per separately converted function on the call path,
   innermost first -- nothing else. *)
From Coq Require Import List String Bool Arith.
Import ListNotations.
Require Import MV.Errors.StackTrace MV.Errors.SourceMap MV.Errors.ExcSyntax MV.Errors.ExcRule MV.Generated.C12_gen MV.Errors.ErrorsProofs.
Local Open Scope string_scope.
Local Open Scope list_scope.

Theorem translated_stack_shape : forall (outer : list level) (inner : level) (tail : list frame)
    (msg conv : string) (post : list frame) (o : origin),
  forallb has_mapped outer = true ->
  innermost (lv_sm inner) (lv_seg inner) = Some (post, o) ->
  separated (outer ++ [inner]) tail = true ->
  run attach_drop (outer ++ [inner]) tail msg conv =
  Meta (summarise (rev (post ++ tail)) conv ++ flat_map own_frame (rev (outer ++ [inner]))) msg.
Proof. exact daisy_chain_full_lemma. Qed.

(* what "innermost" returns: the last frame of the segment that is in the map *)
Theorem innermost_is_last_mapped : forall sm seg post o,
  innermost sm seg = Some (post, o) ->
  exists pre fm, seg = pre ++ fm :: post /\ mapped sm fm = Some o /\ unmapped_in sm post = true.
Proof. exact innermost_spec. Qed.

(* non-vacuity: f (converted) calls g (converted) calls h (not converted), h raises *)
Example translated_stack_shape_example :
  let smf := [(("genf.py", 4), mkorigin "u.py" 20 2 "f" "z = g(x)")] in
  let smg := [(("geng.py", 6), mkorigin "u.py" 16 2 "g" "return h(y)")] in
  let cc := mkframe "api.py" 400 "converted_call" "result = converted_f(*effective_args)" in
  run attach_drop
      [mklevel smf cc [mkframe "genf.py" 4 "tf__f" "z = ag__.converted_call(g, ...)"];
       mklevel smg cc [mkframe "geng.py" 6 "tf__g" "retval_ = ag__.converted_call(h, ...)"; mkframe "api.py" 300 "converted_call" "return _call_unconverted(...)"]]
      [mkframe "u.py" 12 "h" "return [1][x]"] "IndexError: list index out of range" "api.py"
  = Meta [mkfi "u.py" 12 "h" "return [1][x]" false true; mkfi "u.py" 16 "g" "return h(y)" true false;
          mkfi "u.py" 20 "f" "z = g(x)" true false] "IndexError: list index out of range".
Proof. vm_compute. reflexivity. Qed.
Print Assumptions translated_stack_shape.
Print Assumptions innermost_is_last_mapped.
Print Assumptions translated_stack_shape_example.
