(* C12, known finding c12-recursion-shares-source-map: without the separation hypothesis
   daisy_chain is false on the faithful model.  Two activations of the same converted function
   share one generated file and one source map; the outer activation then reports the INNER
   activation's line (line 7, the failing statement) instead of its own call line 5. *)
From Coq Require Import List String Bool Arith.
Import ListNotations.
Require Import MV.Errors.StackTrace MV.Errors.SourceMap MV.Errors.ExcSyntax MV.Errors.ExcRule MV.Generated.C12_gen MV.Errors.ErrorsProofs.
Local Open Scope string_scope.
Local Open Scope list_scope.

Theorem daisy_chain_shared_map_refuted :
  exists (outer : list level) (inner : level) (tail : list frame) (msg conv : string),
    forallb has_mapped (outer ++ [inner]) = true /\
    separated (outer ++ [inner]) tail = false /\
    run attach_drop (outer ++ [inner]) tail msg conv <>
    Meta (stack_trace_inside (lv_seg inner ++ tail) (lv_sm inner) conv ++ flat_map own_frame (rev outer)) msg.
Proof.
  pose (sm := [(("gen.py", 5), mkorigin "u.py" 18 2 "rec" "return rec(n - 1)");
               (("gen.py", 7), mkorigin "u.py" 17 4 "rec" "raise ValueError('boom')")]).
  pose (cc := mkframe "api.py" 400 "converted_call" "result = converted_f(*effective_args)").
  exists [mklevel sm cc [mkframe "gen.py" 5 "tf__rec" "retval_ = ag__.converted_call(rec, ...)"]],
         (mklevel sm cc [mkframe "gen.py" 7 "tf__rec" "raise ag__.converted_call(ValueError, ...)"]),
         [], "ValueError: boom"%string, "api.py"%string.
  split; [vm_compute; reflexivity|]. split; [vm_compute; reflexivity|].
  vm_compute. intro H. discriminate H.
Qed.
Print Assumptions daisy_chain_shared_map_refuted.
