(* C12: an exception that crosses several conversion boundaries (malt.convert wrapper inside
   converted code inside a malt.convert wrapper ...).  For ANY tables that satisfy the generated
   discipline (rules_ok, tables_ok) AND list the message-printing KeyError subclass among the
   key types, the type that leaves the first wrapper is the type that leaves every further
   wrapper: same type stays, StagingError stays StagingError, a KeyError stays a KeyError.
   f2 = the code's own plain-constructor test on the arriving type (a function of the type:
   the same as before when the same type arrives, false for the KeyError subclass, which has an
   initialiser of its own).
   On the unchanged tree key_error_types = [KeyError] only: see keyerror_rewrap_refuted. *)
From Coq Require Import List String Bool Arith.
Import ListNotations.
Require Import MV.Errors.StackTrace MV.Errors.SourceMap MV.Errors.ExcSyntax MV.Errors.ExcRule MV.Generated.C12_gen MV.Errors.ErrorsProofs.
Local Open Scope string_scope.
Local Open Scope list_scope.

Theorem type_survives_further_wrappers : forall (keys : list string),
  tables_ok pass_through_types known_string_constructor_errors keys = true ->
  mem multiline_name keys = true ->
  forall (t : exc_type) (f2 : bool),
    let n1 := name_after t (create_for pass_through_types known_string_constructor_errors keys base_rules t) in
    (n1 = et_name t -> f2 = et_fact t) ->
    (n1 = multiline_name -> f2 = false) ->
    name_after (mkexc n1 f2 false)
               (create_for pass_through_types known_string_constructor_errors keys base_rules (mkexc n1 f2 false)) = n1.
Proof.
  intros keys Ht Hm. apply rewrap_step; [vm_compute; reflexivity | exact Ht | exact Hm].
Qed.

(* non-vacuity: with the KeyError subclass listed, a KeyError crossing three wrappers stays one *)
Example keyerror_through_three_wrappers :
  through pass_through_types known_string_constructor_errors ["builtins.KeyError"; multiline_name] base_rules
          "builtins.KeyError" [false; false; false] = multiline_name.
Proof. vm_compute. reflexivity. Qed.
Print Assumptions type_survives_further_wrappers.
Print Assumptions keyerror_through_three_wrappers.
