(* C12, HISTORICAL witness of c12-keyerror-rewrap (repaired in /repo by ac2c67a; listed under "fixed" in
   known_findings.json; the statement about the current source is keyerror_survives_nested_wrappers).
   With the key test of the tree before the repair
   (`preferred_type is KeyError`, identity_keys = [KeyError]) the type does NOT survive a second
   wrapper: the first wrapper turns a KeyError into MultilineMessageKeyError, which is not KeyError
   itself, has an initialiser of its own and is in no table, so the second wrapper re-raises it as
   StagingError.  (Independent of the generated key_error_types, so it holds before and after the
   repair; the repair makes the generated table satisfy type_survives_further_wrappers.) *)
From Coq Require Import List String Bool Arith.
Import ListNotations.
Require Import MV.Errors.StackTrace MV.Errors.SourceMap MV.Errors.ExcSyntax MV.Errors.ExcRule MV.Generated.C12_gen MV.Errors.ErrorsProofs.
Local Open Scope string_scope.
Local Open Scope list_scope.

Theorem keyerror_rewrap_refuted :
  exists facts : list bool,
    through pass_through_types known_string_constructor_errors identity_keys base_rules "builtins.KeyError" [false]
      = multiline_name /\
    through pass_through_types known_string_constructor_errors identity_keys base_rules "builtins.KeyError" facts
      = staging_name.
Proof. exists [false; false]. split; vm_compute; reflexivity. Qed.
Print Assumptions keyerror_rewrap_refuted.
