(* C12: create_source_map without any hypothesis: every entry of the map is one of the walked
   pairs (a generated line is only ever sent to the ORIGIN of a node printed on that line), every
   walked generated line is in the map, and the map is a dictionary (unique keys). *)
From Coq Require Import List String Bool Arith.
Import ListNotations.
Require Import MV.Errors.StackTrace MV.Errors.SourceMap MV.Errors.ExcSyntax MV.Errors.ExcRule MV.Generated.C12_gen MV.Errors.ErrorsProofs.
Local Open Scope string_scope.
Local Open Scope list_scope.

Theorem source_map_entry_is_walked_pair : forall (es : list (key * origin)) (k : key) (o : origin),
  lookup (create_source_map es) k = Some o -> In (k, o) es.
Proof. exact source_map_entry_lemma. Qed.

Theorem source_map_total : forall (es : list (key * origin)) (k : key) (o : origin),
  In (k, o) es -> exists o', lookup (create_source_map es) k = Some o'.
Proof. exact source_map_total_lemma. Qed.

Theorem source_map_keys_unique : forall es, NoDup (keys (create_source_map es)).
Proof. exact source_map_keys_nodup_lemma. Qed.

(* non-vacuity and the overlap rules: same origin line keeps the first, different lines keep the leftmost *)
Example source_map_overlap_example :
  create_source_map [(("g.py", 3), mkorigin "u.py" 10 8 "f" "a"); (("g.py", 3), mkorigin "u.py" 10 4 "f" "a");
                     (("g.py", 4), mkorigin "u.py" 11 8 "f" "b"); (("g.py", 4), mkorigin "u.py" 12 4 "f" "c")]
  = [(("g.py", 3), mkorigin "u.py" 10 8 "f" "a"); (("g.py", 4), mkorigin "u.py" 12 4 "f" "c")].
Proof. vm_compute. reflexivity. Qed.
Print Assumptions source_map_entry_is_walked_pair.
Print Assumptions source_map_total.
Print Assumptions source_map_keys_unique.
Print Assumptions source_map_overlap_example.
