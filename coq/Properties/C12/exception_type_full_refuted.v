(* C12, known finding c12-init-identity-test: the full statement
      forall t, et_plain t = true -> the re-created exception has type t
   ("same type whenever the type takes a plain message and defines no initialiser of its own")
   is false for the rule of the unchanged tree (identity_rules = the if-chains with the test
   preferred_type.__init__ is Exception.__init__): the test is a runtime fact of the type that
   is independent of et_plain -- on CPython 3.12 it is false for every builtin exception class and
   every class derived from one (each builtin class owns its slot wrapper).
   What does hold is exception_type_guarded below. *)
From Coq Require Import List String Bool Arith.
Import ListNotations.
Require Import MV.Errors.StackTrace MV.Errors.SourceMap MV.Errors.ExcSyntax MV.Errors.ExcRule MV.Generated.C12_gen MV.Errors.ErrorsProofs.
Local Open Scope string_scope.
Local Open Scope list_scope.

Theorem exception_type_full_refuted :
  exists t : exc_type, et_plain t = true /\
    create_for pass_through_types known_string_constructor_errors key_error_types identity_rules t = Staging.
(* witness: class E(ValueError): pass -- in no table, before or after the proposed fix; on the tables of the
   unchanged tree "builtins.IndexError" is a witness as well (observed on the implementation) *)
Proof. exists (mkexc "user.E" false true). split; vm_compute; reflexivity. Qed.

(* the guarded statement: whenever the code's own test agrees with "plain" the type is kept *)
Theorem exception_type_guarded : forall t : exc_type,
  et_plain t = true -> et_fact t = true -> mem (et_name t) key_error_types = false ->
  create_for pass_through_types known_string_constructor_errors key_error_types base_rules t = Same.
Proof.
  intros t _ Hf Hn. unfold create_for. rewrite (rules_ok_sound base_rules); [|vm_compute; reflexivity|apply not_key; exact Hn].
  unfold spec_create, valuation_of. simpl. rewrite Hf. rewrite orb_true_r. reflexivity.
Qed.
Print Assumptions exception_type_full_refuted.
Print Assumptions exception_type_guarded.
