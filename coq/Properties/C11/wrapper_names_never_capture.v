(* C11: the names of the wrapper functions that the transpiler generates AROUND the converted entity
   (def <outer>(): ... def <inner>(ag__): def <entity>(...): <user code>) never capture a name that the user
   code resolves outside the function.  <inner> is a local of <outer>, i.e. it is bound in a scope that
   lexically encloses the user code; the wrapper names are requested with the EMPTY reserved set, so they are
   kept apart from user names only because the request goes to the namer of the conversion context, whose
   namespace holds every global and closure variable of the function (namer_built_from_full_namespace in
   generated_names_never_clash.v), after the requests of the body.
   For every namespace, every earlier state of the namer, every sequence of body requests, every list of
   wrapper roots and every list `outside` of names the user code resolves outside itself that are keys of the
   namespace at conversion time: all requests are answered, the names are pairwise distinct (no wrapper is named
   like a helper of the body), no wrapper name is a key of the namespace, and nothing is captured.
   receivers_gen is translated from the source ON THIS RUN: the receiver of every new_symbol request in malt/ is
   the context namer (ctx.namer, a variable bound once to a validated Namer construction, or a parameter fed
   with one by every caller).
   The hypothesis `incl outside ns` is needed: a global that does not exist yet when the function is converted is
   not in the namespace (hypothesis_needed below; reported separately). *)
From Coq Require Import String List Arith Bool.
Import ListNotations.
Require Import MV.Names.Namer MV.Names.NamerProofs MV.Generated.C11_gen.
Local Open Scope string_scope.

Theorem requests_go_to_context_namer :
  receivers_gen <> [] /\ forallb (fun e => snd e) receivers_gen = true /\
  length receivers_gen = length callsites_gen.
Proof. split; [discriminate | split; vm_compute; reflexivity]. Qed.

Theorem wrapper_names_never_capture :
  forall (ns gen : list string) (body : list (string * list qn)) (wrappers outside : list string),
  incl outside ns ->
  exists cs_body cs_wr g,
    new_symbols ns gen (body ++ wrapper_requests wrappers) = Some ((cs_body ++ cs_wr)%list, g) /\
    length cs_body = length body /\ length cs_wr = length wrappers /\
    NoDup (cs_body ++ cs_wr) /\
    (forall c, In c cs_wr -> ~ In c ns /\ ~ In c gen) /\
    captured cs_wr outside = [].
Proof. exact wrappers_never_capture. Qed.

(* non-vacuity: the context namer steps aside for a global of the same name ... *)
Example context_namer_steps_aside :
  new_symbols ["inner_factory"; "len"] [] ([("if_body", [QSimple "x"])] ++ wrapper_requests ["inner_factory"; "outer_factory"])
  = Some (["if_body"; "inner_factory_1"; "outer_factory"], ["outer_factory"; "inner_factory_1"; "if_body"]).
Proof. vm_compute; reflexivity. Qed.

(* ... while a namer that does not know the namespace of the function (a fresh Namer with an empty namespace)
   hands out the bare root and captures the user's global *)
Example fresh_namer_captures :
  exists cs g, new_symbols [] [] (wrapper_requests ["inner_factory"; "outer_factory"]) = Some (cs, g) /\
    captured cs ["inner_factory"] = ["inner_factory"].
Proof. eexists; eexists; split; vm_compute; reflexivity. Qed.

(* the hypothesis cannot be dropped: a name read as a global that is not (yet) a key of the namespace *)
Example hypothesis_needed :
  exists ns cs g, new_symbols ns [] (wrapper_requests ["inner_factory"]) = Some (cs, g) /\
    ~ incl ["inner_factory"] ns /\ captured cs ["inner_factory"] <> [].
Proof.
  exists ["len"]. eexists; eexists. split; [vm_compute; reflexivity|]. split.
  - intros H. specialize (H "inner_factory" (or_introl eq_refl)). simpl in H. destruct H as [H|[]]; discriminate.
  - vm_compute; discriminate.
Qed.
Print Assumptions wrapper_names_never_capture.
Print Assumptions requests_go_to_context_namer.
Print Assumptions context_namer_steps_aside.
Print Assumptions fresh_namer_captures.
Print Assumptions hypothesis_needed.
