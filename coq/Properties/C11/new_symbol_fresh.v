(* C11: a generated name is never in the namespace (globals, closure, builtins passed in), never among
   the reserved names of the requesting scope, never a previously generated name; any number of
   requests against one Namer yield pairwise distinct names; the search loop always terminates. *)
From Coq Require Import String List Arith Bool.
Import ListNotations.
Require Import MV.Names.Namer MV.Names.NamerProofs MV.Generated.C11_gen.
Local Open Scope string_scope.

Theorem new_symbol_fresh : forall ns gen reqs,
  exists cs g, new_symbols ns gen reqs = Some (cs, g) /\
    NoDup cs /\ (forall c, In c cs -> ~ In c ns /\ ~ In c gen) /\
    Forall2 (fun c rq => ~ In c (flatten (snd rq))) cs reqs.
Proof.
  intros ns gen reqs. destruct (new_symbols ns gen reqs) as [[cs g]|] eqn:E.
  - exists cs, g. split; [reflexivity|]. destruct (new_symbols_fresh _ _ _ _ _ E) as [A [B _]].
    split; [exact A|]. split; [exact B|]. eapply new_symbols_reserved; exact E.
  - exfalso; eapply new_symbols_total; exact E.
Qed.
Example fresh_nonvacuous :
  new_symbols ["loop_body"] [] [("loop_body", [QSimple "x"; QAttr (QSimple "loop_body_1") "loop_body_1"]); ("loop_body", []); ("x_1", [QSimple "x"])]
  = Some (["loop_body_2"; "loop_body_1"; "x_2"], ["x_2"; "loop_body_1"; "loop_body_2"]).
Proof. vm_compute; reflexivity. Qed.
Print Assumptions new_symbol_fresh.
