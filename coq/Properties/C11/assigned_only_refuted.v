(* C11, fixed defect (kept as a regression witness): with the reserved set the code computed before the
   fix (names READ only) the statement is false -- a user variable that is only assigned, named like a
   generated symbol, collides. *)
From Coq Require Import String List Arith Bool.
Import ListNotations.
Require Import MV.Names.Namer MV.Names.NamerProofs MV.Generated.C11_gen.
Local Open Scope string_scope.

Theorem assigned_only_refuted :
  exists (chain : list scope) (c : string) g,
    new_symbols [] [] [("do_return", map QSimple (referenced [FRead] chain))] = Some ([c], g) /\
    exists s, In s chain /\ In c (s_modified s).
Proof.
  exists [mkscope ["i"; "n"] ["do_return"; "i"] ["do_return"; "i"] []], "do_return", ["do_return"].
  split; [vm_compute; reflexivity|]. eexists; split; [left; reflexivity | simpl; auto].
Qed.
Print Assumptions assigned_only_refuted.
