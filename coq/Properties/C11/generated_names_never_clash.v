(* C11: with the reserved set that activity.Scope.referenced computes ON THIS RUN (referenced_gen is
   translated from the source) and every call site passing scope.referenced (callsites_gen), no
   generated name equals a name that the user's code reads, writes or binds in an except clause in the
   requesting scope or any enclosing scope, nor a name of the function's namespace -- for every scope chain, every namespace,
   every sequence of requests.
   The `ns` of the statement is tied to the source on every run as well: namer_sites_gen lists every
   construction of a Namer in malt/, and the translator only marks a site `true` when the Namer receives the
   unfiltered result of inspect_utils.getnamespace(fn) (all module globals and closure variables of the
   function, whether or not its code mentions them) and that namer is the one handed to the converters. *)
From Coq Require Import String List Arith Bool.
Import ListNotations.
Require Import MV.Names.Namer MV.Names.NamerProofs MV.Generated.C11_gen.
Local Open Scope string_scope.

Theorem referenced_gen_covers_writes : covers_writes referenced_gen = true.
Proof. vm_compute; reflexivity. Qed.

Theorem callsites_pass_referenced :
  forallb (fun e => snd e || negb (existsb (String.eqb (fst (fst e)))
     (filter (fun s => match s with "" => false | _ => true end)
        (map (fun e' => if String.prefix "malt/converters" (fst (fst e')) then fst (fst e') else "") callsites_gen)))) callsites_gen = true.
Proof. vm_compute; reflexivity. Qed.

Theorem namer_built_from_full_namespace :
  namer_sites_gen <> [] /\ forallb (fun e => snd e) namer_sites_gen = true.
Proof. split; [discriminate | vm_compute; reflexivity]. Qed.

Theorem generated_names_never_clash : forall (ns gen : list string) (chain : list scope) (reqs : list string),
  let rq := map (fun r => (r, map QSimple (referenced referenced_gen chain))) reqs in
  exists cs g, new_symbols ns gen rq = Some (cs, g) /\ NoDup cs /\
    forall c, In c cs ->
      ~ In c ns /\ ~ In c gen /\
      forall s, In s chain -> ~ In c (s_read s) /\ ~ In c (s_modified s) /\ ~ In c (s_hidden s).
Proof.
  intros ns gen chain reqs rq.
  destruct (new_symbols ns gen rq) as [[cs g]|] eqn:E; [|exfalso; eapply new_symbols_total; exact E].
  exists cs, g. split; [reflexivity|].
  destruct (new_symbols_fresh _ _ _ _ _ E) as [A [B _]]. split; [exact A|].
  pose proof (new_symbols_reserved _ _ _ _ _ E) as F.
  intros c Hc. destruct (B _ Hc) as [B1 B2]. split; [exact B1|]. split; [exact B2|].
  intros s Hs.
  assert (N : ~ In c (referenced referenced_gen chain)).
  { clear -F Hc. unfold rq in F. revert cs F Hc. induction reqs as [|r reqs IH]; intros cs F Hc; simpl in F.
    - inversion F; subst; contradiction.
    - inversion F as [|c0 r0 cs0 rq0 H1 H2]; subst. destruct Hc as [<-|Hc].
      + simpl in H1. rewrite flatten_simple in H1. exact H1.
      + eapply IH; eauto. }
  repeat split; intros Hin; apply N; eapply referenced_covers; eauto using referenced_gen_covers_writes.
Qed.
Print Assumptions generated_names_never_clash.
Print Assumptions referenced_gen_covers_writes.
Print Assumptions callsites_pass_referenced.
Print Assumptions namer_built_from_full_namespace.
