(* C09: converting a bound method looks only at what the method object forwards from its
   __func__ (code, globals, closure, defaults): the result is the conversion of the plain
   function, whose first parameter receives the instance; nothing is pre-bound. *)
From Coq Require Import String List Bool Arith Permutation.
Import ListNotations.
Require Import MV.Iface.IfaceSyntax MV.Iface.Factory MV.Iface.FactoryProofs MV.Generated.C09_gen.

Definition with_self (o : orig) (s : option nat) : orig :=
  {| o_sig := o_sig o; o_decos := o_decos o; o_self := s; o_freevars := o_freevars o;
     o_closure := o_closure o; o_globals := o_globals o; o_defaults := o_defaults o;
     o_kwdefaults := o_kwdefaults o |}.
Theorem bound_method_takes_instance : forall cfg o e ffv inst,
  convert cfg (with_self o (Some inst)) e ffv = convert cfg (with_self o None) e ffv
  /\ forall c, cfg_ok cfg = true -> e_level e = 2 -> convert cfg (with_self o (Some inst)) e ffv = Ok c ->
       c_params c = s_params (o_sig o).
Proof.
  intros cfg o e ffv inst. split; [reflexivity|].
  intros c OK LV C. destruct (signature_lemma cfg _ e ffv c OK LV C) as [A _]. exact A.
Qed.
Print Assumptions bound_method_takes_instance.
