(* C09: the decorators written above the converted function are dropped before the code is
   regenerated, for every decorator list: creating the converted function applies none of
   them; nested functions keep theirs (and get the artifact marker appended). *)
From Coq Require Import String List Bool Arith Permutation.
Import ListNotations.
Require Import MV.Iface.IfaceSyntax MV.Iface.Factory MV.Iface.FactoryProofs MV.Generated.C09_gen.

Theorem decorators_not_reapplied : forall cfg e decos, cfg_ok cfg = true ->
  (e_level e = 2 -> transformed_decos cfg e decos = [])
  /\ (forall o ffv c, e_level e = 2 -> convert cfg o e ffv = Ok c ->
        forall d, ~ In (ApplyDeco d) (c_events c)).
Proof.
  intros cfg e decos OK. destruct (cfg_ok_facts cfg OK) as [_ _ _ _ _ _ _ _ _ _ DT DL]. split.
  - intros LV. unfold transformed_decos. rewrite DL, LV, DT. reflexivity.
  - intros o ffv c LV C d. destruct (defaults_lemma cfg o e ffv c OK LV C) as [A _]. rewrite A. intros [].
Qed.
Theorem nested_decorators_kept : forall e decos, 3 <= e_level e ->
  transformed_decos config_gen e decos = decos ++ [artifact_deco].
Proof.
  intros e decos L. unfold transformed_decos.
  assert (X : Nat.leb (e_level e) (deco_level config_gen) = false)
    by (apply Nat.leb_gt; vm_compute (deco_level config_gen); exact L).
  rewrite X. reflexivity.
Qed.
Print Assumptions decorators_not_reapplied.
Print Assumptions nested_decorators_kept.
