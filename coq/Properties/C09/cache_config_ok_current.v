(* C09: per-run side condition on the configuration generated from the current
   malt/pyct/cache.py (CodeObjectCache._get_key, the mapping behind self._cache) and
   PyToPy.__init__/transform_function: the factory cache is keyed by the code object. *)
From Coq Require Import List Bool NArith.
Require Import MV.Iface.IfaceSyntax MV.Iface.Served MV.Generated.C09_cache_gen.

Theorem cache_config_ok_current : cache_ok cache_gen = true.
Proof. vm_compute; reflexivity. Qed.
Print Assumptions cache_config_ok_current.
