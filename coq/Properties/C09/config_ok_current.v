(* C09: per-run side condition on the table generated from the current
   malt/pyct/transpiler.py and malt/converters/functions.py: the discipline every other
   C09 theorem assumes of the configuration holds for the code as it is now. *)
From Coq Require Import String List Bool Arith Permutation.
Import ListNotations.
Require Import MV.Iface.IfaceSyntax MV.Iface.Factory MV.Iface.FactoryProofs.

Require Import MV.Generated.C09_gen.

Theorem config_ok_current : cfg_ok config_gen = true.
Proof. vm_compute; reflexivity. Qed.
Print Assumptions config_ok_current.
