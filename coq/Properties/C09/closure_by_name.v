(* C09: _PythonFnFactory.instantiate matches closure cells to the factory code's free
   variables BY NAME.  For duplicate-free name tuples and a closure as long as the original
   co_freevars: whatever order CPython gave the factory's co_freevars [ffv],
   - if it succeeds, the cell bound at every position of ffv is the cell the original
     function had for that same name and ffv is a permutation of the original free
     variables (the length check is what excludes a strict subset: a name shadowed by a
     factory parameter such as ag__ would otherwise silently get the wrong binding);
   - it succeeds whenever ffv is a permutation of the original free variables;
   - otherwise it raises (KeyError for a foreign name, ValueError for a strict subset):
     it never binds a name to another name's cell. *)
From Coq Require Import String List Bool Arith Permutation.
Import ListNotations.
Require Import MV.Iface.IfaceSyntax MV.Iface.Factory MV.Iface.FactoryProofs MV.Generated.C09_gen.

Theorem closure_by_name : forall cfg, cfg_ok cfg = true ->
  forall (fv : list name) (cl : list nat) (ffv : list name),
  NoDup fv -> NoDup ffv -> length cl = length fv ->
  (forall fc, inst_closure cfg fv cl ffv = Ok fc ->
     length fc = length ffv /\ Permutation ffv fv
     /\ (forall n k, In (n, k) (combine ffv fc) ->
           In (n, k) (combine fv cl) /\ forall k', In (n, k') (combine fv cl) -> k' = k))
  /\ (Permutation ffv fv -> exists fc, inst_closure cfg fv cl ffv = Ok fc)
  /\ (~ incl ffv fv -> inst_closure cfg fv cl ffv = Err KeyError)
  /\ (incl ffv fv -> ~ Permutation ffv fv -> inst_closure cfg fv cl ffv = Err ValueError).
Proof.
  intros cfg OK fv cl ffv ND NDF LEN. split; [|split; [|split]].
  - intros fc H. destruct (inst_ok cfg OK fv cl ffv NDF LEN fc H) as [A [B D]].
    split; [exact A|]. split; [exact B|]. intros n k Hk. split; [apply D; exact Hk|].
    intros k' Hk'. apply (cell_of_name_unique fv cl n k' k ND LEN Hk'). apply D; exact Hk.
  - apply inst_perm_succeeds; assumption.
  - apply inst_keyerror; assumption.
  - apply inst_valueerror; assumption.
Qed.
(* non-vacuity: reversed order still gets each name its own cell; a dropped or foreign name raises *)
Example closure_by_name_nonvacuous :
  let cfg := MV.Generated.C09_gen.config_gen in
  inst_closure cfg ["a"; "b"; "c"]%string [10; 20; 30] ["c"; "a"; "b"]%string = Ok [30; 10; 20]
  /\ inst_closure cfg ["a"; "b"; "c"]%string [10; 20; 30] ["a"; "c"]%string = Err ValueError
  /\ inst_closure cfg ["a"; "b"]%string [10; 20] ["a"; "z"]%string = Err KeyError.
Proof. vm_compute; repeat split. Qed.
Print Assumptions closure_by_name.
