(* C09: why cache_ok insists on the code object as key.  Keyed by the ADDRESS of the code
   object (id(fn.__code__), necessarily in a plain dict: an int cannot be weakly referenced)
   the conclusion of served_by_equal_code fails on the model: a function is converted and
   dies, another function's code object is allocated at the freed address, and its
   conversion is answered by the dead function's factory -- the result has the dead
   function's parameter list.  The history is well formed (no two live objects share an
   address).  This is not a statement about the current code (cache_config_ok_current
   holds for it); it records the class of change the history stream of the harness
   searches for, and shows that the hypothesis cache_ok of served_by_equal_code is needed. *)
From Coq Require Import List Bool NArith.
Import ListNotations.
Require Import MV.Iface.IfaceSyntax MV.Iface.Served.

Theorem address_key_serves_other_function : exists h u s v v',
  let cfg := {| ck_key := KCodeId; ck_store := SStrong |} in
  cache_ok cfg = false
  /\ wf_hist cfg empty_world h = true
  /\ In (u, SFactory s) (outputs cfg empty_world h)
  /\ val_of u (final cfg empty_world h) = Some v /\ val_of s (final cfg empty_world h) = Some v' /\ v <> v'.
Proof.
  exists [ENew 1 10 100; EConvert 1 0; EDie 1; ENew 2 10 200; EConvert 2 0]%N, 2%N, 1%N, 200%N, 100%N.
  vm_compute. repeat split; try reflexivity.
  - right. left. reflexivity.
  - discriminate.
Qed.
Print Assumptions address_key_serves_other_function.
