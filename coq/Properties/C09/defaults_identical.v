(* C09: creating the converted function object runs no user code: no default expression
   of the user is evaluated (they were all replaced by a constant before the
   transformation) and no decorator is applied; every default value the result carries is
   either the ORIGINAL object (by identity: the original tuple / dict are re-attached) or
   the placeholder constant -- never the result of a fresh evaluation. *)
From Coq Require Import String List Bool Arith Permutation.
Import ListNotations.
Require Import MV.Iface.IfaceSyntax MV.Iface.Factory MV.Iface.FactoryProofs MV.Generated.C09_gen.

Theorem defaults_identical : forall cfg o e ffv c, cfg_ok cfg = true -> e_level e = 2 ->
  convert cfg o e ffv = Ok c ->
  c_events c = []
  /\ (forall v, In v (norm (c_defaults c)) -> In v (norm (o_defaults o)) \/ v = VNone \/ v = VConst)
  /\ (forall p, In p (norm (c_kwdefaults c)) -> In p (norm (o_kwdefaults o)) \/ snd p = VNone \/ snd p = VConst)
  /\ (attaches (defaults_guard cfg) (o_defaults o) = true -> c_defaults c = o_defaults o)
  /\ (attaches (kwdefaults_guard cfg) (o_kwdefaults o) = true -> c_kwdefaults c = o_kwdefaults o).
Proof.
  intros cfg o e ffv c OK LV C.
  destruct (defaults_lemma cfg o e ffv c OK LV C) as [A [B D]].
  repeat split; auto.
  - intros G. destruct (convert_inv cfg o e ffv c OK LV C) as [fc [cells [_ [_ E]]]].
    destruct (eval_def (erase cfg (o_sig o)) []) as [[evs d] kd]. subst c; simpl. rewrite G; reflexivity.
  - intros G. destruct (convert_inv cfg o e ffv c OK LV C) as [fc [cells [_ [_ E]]]].
    destruct (eval_def (erase cfg (o_sig o)) []) as [[evs d] kd]. subst c; simpl. rewrite G; reflexivity.
Qed.

(* the erasure is what makes this true: without it the same pipeline evaluates user code *)
Example erasure_needed :
  let cfg := {| map_keys := map_keys config_gen; select_by := select_by config_gen;
                len_check := len_check config_gen; ft_closure := ft_closure config_gen;
                defaults_guard := defaults_guard config_gen; kwdefaults_guard := kwdefaults_guard config_gen;
                wrap_module := wrap_module config_gen; erase_defaults := EraseAll;
                erase_kwdefaults := EraseNothing; erase_const := EConstNone; erase_kwconst := EConstNone;
                erase_before_transform := true; deco_top := deco_top config_gen;
                deco_nested := deco_nested config_gen; deco_level := deco_level config_gen |} in
  let o := {| o_sig := mkSig (mkParams [] ["x"%string] None ["k"%string] None) [DUser 1] [Some (DUser 2)];
              o_decos := [5]; o_self := None; o_freevars := []; o_closure := []; o_globals := 7;
              o_defaults := Some [VObj 1]; o_kwdefaults := Some [("k"%string, VObj 2)] |} in
  let e := mkEnv ["ag__"%string] ["ag__"%string] "ag__f"%string "inner_factory"%string "outer_factory"%string 2 in
  (exists c, convert cfg o e [] = Ok c /\ c_events c = [EvalUser 2])
  /\ (exists c, convert config_gen o e [] = Ok c /\ c_events c = []
                /\ c_defaults c = Some [VObj 1] /\ c_kwdefaults c = Some [("k"%string, VObj 2)]).
Proof. split; eexists; repeat split; vm_compute; reflexivity. Qed.
Print Assumptions defaults_identical.
