(* C09: the converted function has the parameter list of the original -- same names, kinds
   and order -- and the same defaults (so the same parameters are optional): the run-time
   __defaults__ / __kwdefaults__ of the original are re-attached.  The hypothesis
   defaults_covered is the guard of the known finding c09-cleared-defaults: with the
   re-attachment written as `if defaults:` a function whose __defaults__/__kwdefaults__ was
   emptied after its definition keeps the placeholder defaults of the regenerated def
   (see defaults_cleared_refuted); it is vacuous (true) once the guard is removed. *)
From Coq Require Import String List Bool Arith Permutation.
Import ListNotations.
Require Import MV.Iface.IfaceSyntax MV.Iface.Factory MV.Iface.FactoryProofs MV.Generated.C09_gen.

Theorem signature_preserved : forall cfg o e ffv c, cfg_ok cfg = true -> e_level e = 2 ->
  convert cfg o e ffv = Ok c ->
  c_params c = s_params (o_sig o)
  /\ (defaults_covered cfg o = true ->
      norm (c_defaults c) = norm (o_defaults o) /\ norm (c_kwdefaults c) = norm (o_kwdefaults o)).
Proof. exact signature_lemma. Qed.

(* unconditional for unguarded re-attachment (the proposed fix) *)
Theorem signature_preserved_unguarded : forall cfg o e ffv c, cfg_ok cfg = true -> e_level e = 2 ->
  defaults_guard cfg = GAlways -> kwdefaults_guard cfg = GAlways ->
  convert cfg o e ffv = Ok c ->
  c_params c = s_params (o_sig o)
  /\ c_defaults c = o_defaults o /\ c_kwdefaults c = o_kwdefaults o.
Proof.
  intros cfg o e ffv c OK LV G1 G2 C.
  destruct (convert_inv cfg o e ffv c OK LV C) as [fc [cells [_ [_ E]]]].
  destruct (eval_def (erase cfg (o_sig o)) []) as [[evs d] kd]. subst c; simpl.
  rewrite G1, G2; simpl. repeat split.
Qed.

(* in the usual case -- defaults as evaluated by the def statement -- the hypothesis holds *)
Theorem defaults_covered_when_untouched : forall cfg (o : orig),
  cfg_ok cfg = true ->
  (s_defaults (o_sig o) <> [] -> truthy (o_defaults o) = true) ->
  (kw_pairs (kwonly (s_params (o_sig o))) (s_kwdefaults (o_sig o)) <> [] -> truthy (o_kwdefaults o) = true) ->
  defaults_covered cfg o = true.
Proof.
  intros cfg o OK H1 H2. destruct (cfg_ok_facts cfg OK) as [_ _ _ _ D K _ _ _ _ _ _].
  unfold defaults_covered. apply andb_true_iff; split.
  - destruct (defaults_guard cfg); simpl; try reflexivity; [| |exfalso; apply D; reflexivity];
      destruct (s_defaults (o_sig o)) eqn:E; try (rewrite H1 by discriminate);
      try reflexivity; try (destruct (o_defaults o); reflexivity); try apply orb_true_r.
    specialize (H1 ltac:(discriminate)). destruct (o_defaults o) as [[|]|]; simpl in *; try discriminate; reflexivity.
  - destruct (kwdefaults_guard cfg); simpl; try reflexivity; [| |exfalso; apply K; reflexivity];
      destruct (kw_pairs _ _) eqn:E; try (rewrite H2 by discriminate);
      try reflexivity; try (destruct (o_kwdefaults o); reflexivity); try apply orb_true_r.
    specialize (H2 ltac:(discriminate)). destruct (o_kwdefaults o) as [[|]|]; simpl in *; try discriminate; reflexivity.
Qed.
Print Assumptions signature_preserved.
Print Assumptions signature_preserved_unguarded.
Print Assumptions defaults_covered_when_untouched.
