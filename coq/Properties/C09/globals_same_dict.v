(* C09: the converted function resolves global names in the module dictionary of the
   original: instantiate passes its globals_ argument (fn.__globals__, checked by the
   translator) to types.FunctionType, and a def executed by that function inherits it.
   Holds for every configuration the translator can emit. *)
From Coq Require Import String List Bool Arith Permutation.
Import ListNotations.
Require Import MV.Iface.IfaceSyntax MV.Iface.Factory MV.Iface.FactoryProofs MV.Generated.C09_gen.

Theorem globals_same_dict : forall cfg o e ffv c, convert cfg o e ffv = Ok c -> c_globals c = o_globals o.
Proof. exact globals_lemma. Qed.
Print Assumptions globals_same_dict.
