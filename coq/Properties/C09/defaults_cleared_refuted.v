(* C09 known finding c09-cleared-defaults, on the faithful model: with the re-attachment
   guarded by truthiness (`if defaults:` / `if kwdefaults:`), a function whose
   __defaults__ and __kwdefaults__ were set to None after its definition (so that b and k
   are REQUIRED) converts to a function in which b and k are optional with value None.
   The configuration is an explicit copy of the one generated on 2026-09-25 so that the
   witness survives the proposed fix (fixes/C09-reattach-cleared-defaults.diff), after
   which signature_preserved_unguarded applies instead. *)
From Coq Require Import String List Bool Arith Permutation.
Import ListNotations.
Require Import MV.Iface.IfaceSyntax MV.Iface.Factory MV.Iface.FactoryProofs MV.Generated.C09_gen.

Definition cfg_truthy : config := {|
  map_keys := NSelfFreevars; select_by := NFactoryFreevars; len_check := Some (LSelected, LClosureArg);
  ft_closure := ClSelected; defaults_guard := GTruthy; kwdefaults_guard := GTruthy;
  wrap_module := [MFuture; MDef NOuter PNone [ODummies; ODef NInner PFactoryArgs [IEntity; IRet NEntity]; ORet NInner]];
  erase_defaults := EraseAll; erase_kwdefaults := ErasePresent; erase_const := EConstNone; erase_kwconst := EConstNone;
  erase_before_transform := true; deco_top := DecoClear; deco_nested := DecoAppendArtifact; deco_level := 2 |}.

Theorem defaults_cleared_refuted : exists o e c,
  cfg_ok cfg_truthy = true /\ e_level e = 2 /\ convert cfg_truthy o e [] = Ok c
  /\ o_defaults o = None /\ o_kwdefaults o = None
  /\ c_defaults c = Some [VNone] /\ c_kwdefaults c = Some [("k"%string, VNone)]
  /\ defaults_covered cfg_truthy o = false.
Proof.
  exists {| o_sig := mkSig (mkParams [] ["a"; "b"]%string None ["k"%string] None) [DUser 1] [Some (DUser 2)];
            o_decos := []; o_self := None; o_freevars := []; o_closure := []; o_globals := 7;
            o_defaults := None; o_kwdefaults := None |}.
  exists (mkEnv ["ag__"%string] ["ag__"%string] "ag__f"%string "inner_factory"%string "outer_factory"%string 2).
  eexists. repeat split; vm_compute; reflexivity.
Qed.
Print Assumptions defaults_cleared_refuted.
