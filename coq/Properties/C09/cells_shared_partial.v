(* C09: end to end (erase -> transform -> two nested factories -> load -> instantiate ->
   call of the bound factory): the converted function shares the original closure cells,
   name by name.  [ffv] is the factory's co_freevars in whatever order CPython produced
   them (as a set it is what Python's scoping rules give for the generated module:
   hypothesis FFV, validated against CPython on every run).  If the conversion returns a
   function then
   - every free variable of the ORIGINAL is a free variable of the result and its cell is
     the very cell the original function has for that name (so a rebinding through
     nonlocal on either side is seen by the other); no original cell is dropped;
   - no name of the result is bound to an original cell of a different name;
   - the only other cells are new ones for the factory's own parameters (ag__) / the
     function's own name.
   _partial: CPython's resolution of free names (model_ffv / entity_free) and
   types.FunctionType are a hand-written model validated by the correspondence, not derived. *)
From Coq Require Import String List Bool Arith Permutation.
Import ListNotations.
Require Import MV.Iface.IfaceSyntax MV.Iface.Factory MV.Iface.FactoryProofs MV.Generated.C09_gen.

Theorem cells_shared_partial : forall cfg o e ffv c, cfg_ok cfg = true -> e_level e = 2 ->
  NoDup (o_freevars o) -> NoDup ffv -> length (o_closure o) = length (o_freevars o) ->
  (forall s, wrap_scopes cfg e (o_freevars o) = Some s -> forall n, In n ffv <-> In n (model_ffv s)) ->
  convert cfg o e ffv = Ok c ->
  let orig_cells := combine (o_freevars o) (o_closure o) in
  (forall n, In n (o_freevars o) -> exists k, In (n, COrig k) (c_closure c) /\ In (n, k) orig_cells)
  /\ (forall n k, In (n, COrig k) (c_closure c) ->
        In (n, k) orig_cells /\ forall k', In (n, k') orig_cells -> k' = k)
  /\ (forall n n', In (n, CFresh n') (c_closure c) -> n' = n /\ In n (e_extra e ++ [e_entity e]))
  /\ NoDup (map fst (c_closure c)).
Proof.
  intros cfg o e ffv c OK LV ND NDF LEN FFV C.
  destruct (cells_lemma cfg o e ffv c OK LV ND NDF LEN FFV C) as [A [_ [D [E F]]]].
  cbv zeta. split; [exact A|]. split; [|split; [exact E | exact F]].
  intros n k Hk. split; [apply D; exact Hk|].
  intros k' Hk'. apply (cell_of_name_unique _ _ n k' k ND LEN Hk'). apply D; exact Hk.
Qed.

(* a free variable shadowed by a factory parameter is refused, not mis-bound *)
Example shadowed_name_raises :
  let o := {| o_sig := mkSig (mkParams [] [] None [] None) [] [];
              o_decos := []; o_self := None;
              o_freevars := ["ag__"; "zeta"]%string; o_closure := [10; 20]; o_globals := 7;
              o_defaults := None; o_kwdefaults := None |} in
  let e := mkEnv ["ag__"; "zeta"]%string ["ag__"%string] "ag__f"%string
                 "inner_factory"%string "outer_factory"%string 2 in
  convert config_gen o e ["zeta"%string] = Err ValueError.
Proof. vm_compute; reflexivity. Qed.

(* non-vacuity on the current configuration: f closes over a, b, c (cells 10, 20, 30), the
   transformed code still mentions them (and ag__, len); CPython lists the factory's free
   variables in another order *)
Example cells_shared_nonvacuous :
  let o := {| o_sig := mkSig (mkParams [] ["x"%string] None [] None) [] [];
              o_decos := []; o_self := None;
              o_freevars := ["a"; "b"; "c"]%string; o_closure := [10; 20; 30]; o_globals := 7;
              o_defaults := None; o_kwdefaults := None |} in
  let e := mkEnv ["c"; "ag__"; "a"; "len"; "b"]%string ["ag__"%string] "ag__f"%string
                 "inner_factory"%string "outer_factory"%string 2 in
  exists c, convert config_gen o e ["b"; "c"; "a"]%string = Ok c
   /\ c_closure c = [("c", COrig 30); ("ag__", CFresh "ag__"); ("a", COrig 10); ("b", COrig 20)]%string.
Proof. eexists; split; vm_compute; reflexivity. Qed.
Print Assumptions cells_shared_partial.
