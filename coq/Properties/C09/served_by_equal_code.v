(* C09: "the function returned by a conversion accepts exactly the same calls as THE
   ORIGINAL", over whole histories of conversions.  transform_function instantiates the
   factory it finds in its cache with the function's own globals / closure / defaults, so
   the result has the parameter names, kinds and order of the function the factory was
   generated from (signature_preserved).  With the cache keyed by the code object itself
   (cache_ok; per-run side condition cache_config_ok_current), in every history CPython can
   produce -- code objects created, converted under any options, deallocated, their
   addresses handed out again to other code objects, in any interleaving -- every conversion
   is answered by a factory, and that factory was generated from a code object with the SAME
   VALUE as the one being converted (equal name, first line, parameter counts and kinds,
   variable names, bytecode, constants: the calling interface is part of the value).
   Runtime (S, validated on the recorded history of every run by MV.Iface.ServedCheck):
   WeakKeyDictionary, code equality, allocation. *)
From Coq Require Import List Bool NArith.
Import ListNotations.
Require Import MV.Iface.IfaceSyntax MV.Iface.Served MV.Iface.ServedProofs.

Theorem served_by_equal_code : forall cfg, cache_ok cfg = true ->
  forall h, wf_hist cfg empty_world h = true ->
  (forall u x, In (u, x) (outputs cfg empty_world h) -> exists s, x = SFactory s)
  /\ (forall u s, In (u, SFactory s) (outputs cfg empty_world h) ->
      exists v, val_of u (final cfg empty_world h) = Some v /\ val_of s (final cfg empty_world h) = Some v).
Proof.
  intros cfg Hok h Hwf. split.
  - exact (always_a_factory cfg Hok h empty_world Hwf).
  - exact (served_lemma cfg Hok h Hwf).
Qed.
Print Assumptions served_by_equal_code.

(* non-vacuity: a module is loaded, its function converted, the module dropped, reloaded at
   the same address with the same text, converted again under two option sets, while a
   function with another value lives next to it *)
Example served_by_equal_code_example :
  let cfg := {| ck_key := KCode; ck_store := SWeakKeys |} in
  let h := [ENew 1 10 100; EConvert 1 0; ENew 2 11 200; EConvert 2 0; EDie 1;
            ENew 3 10 100; EConvert 3 0; EConvert 3 1; ENew 4 12 100; EConvert 4 1; EConvert 2 0]%N in
  cache_ok cfg = true /\ wf_hist cfg empty_world h = true
  /\ outputs cfg empty_world h
     = [(1, SFactory 1); (2, SFactory 2); (3, SFactory 3); (3, SFactory 3); (4, SFactory 3); (2, SFactory 2)]%N.
Proof. vm_compute. repeat split; reflexivity. Qed.
Print Assumptions served_by_equal_code_example.
