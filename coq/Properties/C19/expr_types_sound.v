(* C19: the set attached to an EXPRESSION at a node contains the tag of every value the expression
   takes there, in every execution along CFG edges, for expressions that read only clean locals
   (and any external names).  Same hypotheses as types_sound. *)
From Coq Require Import List Arith Bool.
Import ListNotations.
Require Import MV.Types.Infer MV.Types.InferProofs.

Section Statement.
  Variable is_local : name -> bool.
  Variable ctx : name -> option tyset.
  Variable res_value : val -> option tyset.
  Variable res_name res_arg : name -> option tyset.
  Variable res_call : nat -> name -> option tyset -> list (option tyset) -> option tyset.
  Variable res_binop res_compare : nat -> tyset -> tyset -> option tyset.
  Variable res_unop : nat -> tyset -> option tyset.
  Variable res_slice : nat -> tyset -> tyset -> option tyset.
  Variable res_unpack : nat -> tyset -> option tyset -> option tyset.
  Variable res_list : list (option tyset) -> option tyset.
  Variable genv : name -> option val.
  Variable sem_call : val -> list val -> option val.
  Variable sem_bin sem_cmp sem_sub : nat -> val -> val -> option val.
  Variable sem_un : nat -> val -> option val.
  Variable sem_list : list val -> val.
  Variable sem_other : list val -> option val.
  Variable sem_unpack : val -> nat -> option (list val).
  Variable zero : val.
  Variable clean : name -> bool.
  Variable g : graph.
  Variable sol : solution.

  Let tr := transfer is_local ctx res_value res_name res_arg res_call res_binop res_compare res_unop res_slice
                     res_unpack res_list zero.
  Let ok := node_ok is_local ctx res_value res_name res_arg res_call res_binop res_compare res_unop res_slice
                    res_unpack res_list zero clean.
  Let reaches := reach is_local res_arg genv sem_call sem_bin sem_cmp sem_sub sem_un sem_list sem_other sem_unpack g.

  Theorem expr_types_sound :
    truthful ctx res_value res_name res_call res_binop res_compare res_unop res_slice res_unpack res_list
             genv sem_call sem_bin sem_cmp sem_sub sem_un sem_list sem_unpack ->
    (forall n m, In m (succs g n) -> sub (sol_out sol n) (sol_in sol m)) ->
    (forall n nd, assoc (g_nodes g) n = Some nd -> sub (tr nd (sol_in sol n)) (sol_out sol n)) ->
    (forall n nd, assoc (g_nodes g) n = Some nd -> ok nd (sol_in sol n) = true) ->
    (forall n, NoNL is_local (sol_in sol n)) ->
    forall n r e v s, reaches n r ->
      (forall x, In x (reads e) -> is_local x = true -> clean x = true) ->
      eval is_local genv sem_call sem_bin sem_cmp sem_sub sem_un sem_list sem_other r e = Some v ->
      infer is_local ctx res_value res_name res_call res_binop res_compare res_unop res_slice res_list
            (sol_in sol n) e = Some s ->
      In (type_of v) s.
  Proof.
    intros T S1 S2 S3 S4 n r e v s R Ro E I. eapply expr_report_sound; eauto.
  Qed.
End Statement.
Print Assumptions expr_types_sound.
