(* C19, known finding c19-closure-types-arrive-after-callee-analysed: part (2) of
   closure_types_reach_callee_entry does NOT extend to call sites in functions analysed after the callee.
   Witness = the closure data the real analysis produces for corpus/C19/closure_late_sibling.py

       x = 1; def g1(): return (x, 0); def g2(): return g1(); y = g1(); x = 's'; z = g2()

   restricted to the names x (5), y (6), z (7); tags 0 = int, 3 = str, 6 = Any; def nodes g1 = 4, g2 = 5.
   The certificate holds (every site is in the final annotation, every early site in the entry state), the late
   site `return g1()` inside g2 carries x : {str}, the entry state of g1 has x : {int} only: FunctionVisitor
   analysed g1 before g2 and never returns to it. *)
From Coq Require Import List Arith Bool.
Import ListNotations.
Require Import MV.Types.Infer MV.Types.Closure.

Theorem closure_late_site_refuted :
  exists (fs : list lfun) (cs : list csite) (c : csite) (f : lfun) (x : name) (s s' : tyset),
    clos_ok fs cs = true /\ In c cs /\ cs_late c = true /\
    find_fun fs (cs_callee c) = Some f /\
    lookup (cs_out c) x = Some s /\ mem_name x (lf_bound f) = false /\
    lookup (lf_entry f) x = Some s' /\ inclb s s' = false.
Proof.
  pose (g1 := mklfun 4 [] [(5, [TBase 0]); (6, [TBase 6])]
                          [(5, [TBase 0; TBase 3]); (6, [TBase 6]); (7, [TBase 6])]
                          [(5, [TBase 0]); (6, [TBase 6])]).
  pose (g2 := mklfun 5 [] [(5, [TBase 3]); (6, [TBase 6]); (7, [TBase 6])]
                          [(5, [TBase 3]); (6, [TBase 6]); (7, [TBase 6])]
                          [(5, [TBase 3]); (6, [TBase 6]); (7, [TBase 6])]).
  pose (late := mkcsite 4 true [(5, [TBase 3]); (6, [TBase 6]); (7, [TBase 6])]).
  exists [g1; g2],
         [mkcsite 4 false [(5, [TBase 0]); (6, [TBase 6])];
          mkcsite 5 false [(5, [TBase 3]); (6, [TBase 6]); (7, [TBase 6])];
          late],
         late, g1, 5, [TBase 3], [TBase 0].
  vm_compute. repeat split; auto.
Qed.
Print Assumptions closure_late_site_refuted.
