(* C19 tie: the boolean certificate `sol_ok`, which every run evaluates in Coq on the in_/out maps the
   REAL Analyzer produced for each generated function (with the answers of the scripted resolver as
   tables), implies the four structural hypotheses of types_sound / expr_types_sound.  So for every
   checked function: if the recorded answers are truthful, every execution of it is covered. *)
From Coq Require Import List Arith Bool.
Import ListNotations.
Require Import MV.Types.Infer MV.Types.InferProofs MV.Types.InferCheck MV.Types.InferCertProofs.

Theorem certificate_sound :
  forall (T : tables) (cleans : list name) (g : graph) (sol : solution),
    sol_ok T cleans g sol = true ->
    let clean := fun x => existsb (Nat.eqb x) cleans in
    (forall n m, In m (succs g n) -> sub (sol_out sol n) (sol_in sol m)) /\
    (forall n nd, assoc (g_nodes g) n = Some nd -> sub (tb_transfer T nd (sol_in sol n)) (sol_out sol n)) /\
    (forall n nd, assoc (g_nodes g) n = Some nd -> tb_node_ok T clean nd (sol_in sol n) = true) /\
    (forall n, NoNL (tb_is_local T) (sol_in sol n)).
Proof. intros T cleans g sol OK. exact (cert_parts T cleans g sol OK). Qed.
Print Assumptions certificate_sound.
