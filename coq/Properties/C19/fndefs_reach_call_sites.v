(* C19, input of the closure-type accumulation: if the DEFINED_FNS_IN sets the implementation attached to
   the CFG nodes satisfy the forward inequations `fn_ok` (evaluated in Coq on every generated function, all
   its graphs), then a local function's def that can reach a statement along CFG edges (any path, any
   number of loop iterations) is in DEFINED_FNS_IN of that statement -- so every call site it reaches
   contributes to its closure types. *)
From Coq Require Import List Arith Bool.
Import ListNotations.
Require Import MV.Types.FnDefs MV.Types.FnDefsProofs.

Theorem fndefs_reach_call_sites :
  forall (g : fgraph) (s : fsol), fn_ok g s = true ->
  forall d m, In d (f_defs g) -> after g d m -> In d (fassoc s m).
Proof. intros g s OK d m. apply defs_reach. exact OK. Qed.
Print Assumptions fndefs_reach_call_sites.
