(* C19: where the inferrer cannot know, it reports nothing (None), never a made-up set:
   an operator / subscript / tuple with an operand of unknown type, an expression kind without a
   visitor, a local name that has no entry in the type map. *)
From Coq Require Import List Arith Bool.
Import ListNotations.
Require Import MV.Types.Infer MV.Types.InferProofs.

Section Statement.
  Variable is_local : name -> bool.
  Variable ctx : name -> option tyset.
  Variable res_value : val -> option tyset.
  Variable res_name : name -> option tyset.
  Variable res_call : nat -> name -> option tyset -> list (option tyset) -> option tyset.
  Variable res_binop res_compare : nat -> tyset -> tyset -> option tyset.
  Variable res_unop : nat -> tyset -> option tyset.
  Variable res_slice : nat -> tyset -> tyset -> option tyset.
  Variable res_list : list (option tyset) -> option tyset.
  Let inf := infer is_local ctx res_value res_name res_call res_binop res_compare res_unop res_slice res_list.

  Theorem unknown_reports_nothing :
    forall tm,
      (forall op a b, inf tm a = None \/ inf tm b = None ->
          inf tm (EBin op a b) = None /\ inf tm (ECmp op a b) = None /\ inf tm (ESub op a b) = None) /\
      (forall op a, inf tm a = None -> inf tm (EUn op a) = None) /\
      (forall e es, inf tm e = None -> inf tm (ETuple (Econs e es)) = None) /\
      (forall e1 e es, inf tm e = None -> inf tm (ETuple (Econs e1 (Econs e es))) = None) /\
      (forall es, inf tm (EOther es) = None) /\
      (forall x, is_local x = true -> lookup tm x = None -> inf tm (EName x) = None).
  Proof.
    intros tm. unfold inf.
    split; [|split; [|split; [|split; [|split]]]].
    - intros op a b H. repeat split; rewrite infer_eq; cbv iota;
        (destruct H as [H|H]; rewrite H; auto;
         destruct (infer is_local ctx res_value res_name res_call res_binop res_compare res_unop res_slice res_list tm a); auto).
    - intros op a H. rewrite infer_eq; cbv iota. rewrite H. reflexivity.
    - intros e es H. rewrite infer_eq; cbv iota. rewrite infer_all_eq; cbv iota. rewrite H. reflexivity.
    - intros e1 e es H. rewrite infer_eq; cbv iota. rewrite infer_all_eq; cbv iota.
      rewrite (infer_all_eq _ _ _ _ _ _ _ _ _ _ tm (Econs e es)); cbv iota. rewrite H.
      destruct (infer is_local ctx res_value res_name res_call res_binop res_compare res_unop res_slice res_list tm e1); reflexivity.
    - intros es. rewrite infer_eq. reflexivity.
    - intros x Hl L. rewrite infer_eq; cbv iota. unfold name_types. rewrite L, Hl. reflexivity.
  Qed.
End Statement.
Print Assumptions unknown_reports_nothing.
