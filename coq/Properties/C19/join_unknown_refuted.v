(* C19, known finding c19-untyped-binding-keeps-stale-types, second face: "unknown" is the ABSENCE of
   an entry, and _TypeMap.__or__ joins an absent entry with a present one to the present one.
     if c: x = 1
     else: x = <expression the inferrer cannot type>
     x
   reports {int} for x after the join although the else path leaves a str in x.  (Removing the stale
   entry at the untyped binding would therefore not be enough to make the analysis sound.) *)
From Coq Require Import List Arith Bool.
Import ListNotations.
Require Import MV.Types.Infer MV.Types.InferProofs.

Definition w_local (x : name) : bool := true.
Definition w_none1 {A} (_ : A) : option tyset := None.
Definition w_value (v : val) : option tyset := Some [type_of v].
Definition w_call (_ : nat) (_ : name) (_ : option tyset) (_ : list (option tyset)) : option tyset := None.
Definition w_op3 (_ : nat) (_ _ : tyset) : option tyset := None.
Definition w_op2 (_ : nat) (_ : tyset) : option tyset := None.
Definition w_unpack (_ : nat) (_ : tyset) (_ : option tyset) : option tyset := None.
Definition w_genv (_ : name) : option val := None.
Definition w_scall (_ : val) (_ : list val) : option val := None.
Definition w_s3 (_ : nat) (_ _ : val) : option val := None.
Definition w_s2 (_ : nat) (_ : val) : option val := None.
Definition w_slist (_ : list val) : val := VBase 4 0.
Definition w_other (vs : list val) : option val := Some (last vs (VBase 0 0)).
Definition w_sunpack (_ : val) (_ : nat) : option (list val) := None.

Definition w_int := VBase 0 1.
Definition w_str := VBase 3 0.
Definition w_g : graph :=
  mkgraph [(0, NArgs []); (1, NExpr (EConst (VBase 2 0)));
           (2, NAssign [TgName 0] (EConst w_int));
           (3, NAssign [TgName 0] (EOther (Econs (EConst w_str) Enil)));
           (4, NExpr (EName 0))]
          [(0, [1]); (1, [2; 3]); (2, [4]); (3, [4]); (4, [])]
          [(0, []); (1, [0]); (2, [1]); (3, [1]); (4, [2; 3])] 0.
Definition w_tr := transfer w_local w_none1 w_value w_none1 w_none1 w_call w_op3 w_op3 w_op2 w_op3 w_unpack w_none1 (VBase 0 0).

Theorem join_unknown_refuted :
  exists sol r,
    truthful w_none1 w_value w_none1 w_call w_op3 w_op3 w_op2 w_op3 w_unpack w_none1
             w_genv w_scall w_s3 w_s3 w_s3 w_s2 w_slist w_sunpack /\
    analyze w_tr w_g 100 = Some sol /\
    lookup (sol_out sol 3) 0 = None /\                       (* nothing is known on the else path ... *)
    reach w_local w_none1 w_genv w_scall w_s3 w_s3 w_s3 w_s2 w_slist w_other w_sunpack w_g 4 r /\
    r 0 = Some w_str /\
    lookup (sol_in sol 4) 0 = Some [TBase 0] /\              (* ... but the join reports {int} *)
    ~ In (type_of w_str) [TBase 0].
Proof.
  eexists. exists (set_env (fun _ => None) 0 w_str).
  split; [|split; [vm_compute; reflexivity|split; [vm_compute; reflexivity|
           split; [|split; [reflexivity|split; [vm_compute; reflexivity|]]]]]].
  - unfold truthful, w_none1, w_call, w_op3, w_op2, w_unpack, w_value.
    repeat split; intros; try discriminate. inversion H; subst. left; reflexivity.
  - eapply r_step with (n := 3); [| reflexivity | | simpl; auto].
    + eapply r_step with (n := 1); [| reflexivity | | simpl; auto].
      * eapply r_step with (n := 0); [apply r_entry | reflexivity | | simpl; auto].
        apply st_args with (vs := []); [reflexivity | constructor].
      * eapply st_expr; reflexivity.
    + eapply st_assign; reflexivity.
  - simpl. intros [H|[]]. discriminate.
Qed.
Print Assumptions join_unknown_refuted.
