(* C19 main theorem (full under the guard `clean`, which is the complement of the known finding
   c19-untyped-binding-keeps-stale-types): with a truthful resolver, for ANY in_/out maps that satisfy
   the dataflow inclusions of Analyzer.visit_node along every CFG edge (out[n] below in_[m], transfer of
   in_[n] below out[n]), along every execution that follows CFG edges from the entry -- any arguments the
   resolver is truthful about, any path, any number of loop iterations -- whenever a variable all of
   whose bindings the inferrer types (clean) holds a value at a node, the set reported for it at that
   node (before and after the node) contains the tag of that value.
   Not covered: variables with an untyped binding (see stale_type_refuted / join_unknown_refuted),
   local functions (closure types, side effects of calls), that the worklist reaches such maps
   (validated per run: model worklist = implementation's maps, and the certificate check). *)
From Coq Require Import List Arith Bool.
Import ListNotations.
Require Import MV.Types.Infer MV.Types.InferProofs.

Section Statement.
  Variable is_local : name -> bool.
  Variable ctx : name -> option tyset.
  Variable res_value : val -> option tyset.
  Variable res_name res_arg : name -> option tyset.
  Variable res_call : nat -> name -> option tyset -> list (option tyset) -> option tyset.
  Variable res_binop res_compare : nat -> tyset -> tyset -> option tyset.
  Variable res_unop : nat -> tyset -> option tyset.
  Variable res_slice : nat -> tyset -> tyset -> option tyset.
  Variable res_unpack : nat -> tyset -> option tyset -> option tyset.
  Variable res_list : list (option tyset) -> option tyset.
  Variable genv : name -> option val.
  Variable sem_call : val -> list val -> option val.
  Variable sem_bin sem_cmp sem_sub : nat -> val -> val -> option val.
  Variable sem_un : nat -> val -> option val.
  Variable sem_list : list val -> val.
  Variable sem_other : list val -> option val.
  Variable sem_unpack : val -> nat -> option (list val).
  Variable zero : val.
  Variable clean : name -> bool.
  Variable g : graph.
  Variable sol : solution.

  Let tr := transfer is_local ctx res_value res_name res_arg res_call res_binop res_compare res_unop res_slice
                     res_unpack res_list zero.
  Let ok := node_ok is_local ctx res_value res_name res_arg res_call res_binop res_compare res_unop res_slice
                    res_unpack res_list zero clean.
  Let reaches := reach is_local res_arg genv sem_call sem_bin sem_cmp sem_sub sem_un sem_list sem_other sem_unpack g.
  Let steps := step is_local res_arg genv sem_call sem_bin sem_cmp sem_sub sem_un sem_list sem_other sem_unpack.

  Theorem types_sound :
    truthful ctx res_value res_name res_call res_binop res_compare res_unop res_slice res_unpack res_list
             genv sem_call sem_bin sem_cmp sem_sub sem_un sem_list sem_unpack ->
    (forall n m, In m (succs g n) -> sub (sol_out sol n) (sol_in sol m)) ->
    (forall n nd, assoc (g_nodes g) n = Some nd -> sub (tr nd (sol_in sol n)) (sol_out sol n)) ->
    (forall n nd, assoc (g_nodes g) n = Some nd -> ok nd (sol_in sol n) = true) ->
    (forall n, NoNL is_local (sol_in sol n)) ->
    forall n r, reaches n r ->
      (forall x v s, clean x = true -> r x = Some v -> lookup (sol_in sol n) x = Some s -> In (type_of v) s) /\
      (forall nd r' x v s, assoc (g_nodes g) n = Some nd -> steps nd r r' ->
          clean x = true -> r' x = Some v -> lookup (sol_out sol n) x = Some s -> In (type_of v) s).
  Proof.
    intros T S1 S2 S3 S4 n r R. split.
    - intros x v s. eapply name_report_sound; eauto.
    - intros nd r' x v s A St. eapply out_report_sound; eauto.
  Qed.
End Statement.
Print Assumptions types_sound.
