(* C19, "closure types recorded for a local function cover the types of the captured variables at each
   call": if the data the implementation produced for a program satisfy the boolean certificate `clos_ok`
   (evaluated in Coq on every generated program: per local function the CLOSURE_TYPES it was handed when its
   own analysis started, the final annotation and the in_ map of its entry node; per call site the type map
   after the calling statement), then
     (1) the type set of EVERY name at EVERY call site is contained in the final CLOSURE_TYPES of the callee;
     (2) at every call site that is analysed before the callee (cs_late = false), the type set of every name
         that the callee does not bind is contained in the callee's ENTRY state -- so the sets are carried on
         to whatever the callee calls in turn, and types_sound continues inside the callee.
   With types_sound at the calling statement (run-time type of x in cs_out) this gives: the run-time type of
   a captured variable at the call is in the recorded closure types and in the callee's entry map.
   Not covered (known finding c19-closure-types-arrive-after-callee-analysed): part (2) for call sites in
   functions analysed after the callee; see closure_late_site_refuted. *)
From Coq Require Import List Arith Bool.
Import ListNotations.
Require Import MV.Types.Infer MV.Types.InferProofs MV.Types.Closure MV.Types.ClosureProofs.

Theorem closure_types_reach_callee_entry :
  forall (fs : list lfun) (cs : list csite), clos_ok fs cs = true ->
  forall c, In c cs ->
    exists f, find_fun fs (cs_callee c) = Some f /\
      sub (cs_out c) (lf_final f) /\
      (cs_late c = false ->
       forall x s, lookup (cs_out c) x = Some s -> mem_name x (lf_bound f) = false ->
         exists s', lookup (lf_entry f) x = Some s' /\ incl s s').
Proof.
  intros fs cs OK c H.
  destruct (site_in_final fs cs OK c H) as [f [F S]].
  exists f. split; auto. split; auto.
  intros NL. destruct (site_in_entry fs cs OK c H NL) as [f' [F' E]].
  rewrite F in F'. inversion F'; subst. exact E.
Qed.
Print Assumptions closure_types_reach_callee_entry.

(* non-vacuity: x = 1; def g1(): return x; g1()  -- one call site, x : {int} arrives in g1's entry state *)
Example closure_certificate_nonvacuous :
  let f := mklfun 7 [] [(0, [TBase 0])] [(0, [TBase 0])] [(0, [TBase 0])] in
  let c := mkcsite 7 false [(0, [TBase 0])] in
  clos_ok [f] [c] = true /\ clos_ok [mklfun 7 [] [(0, [TBase 0])] [(0, [TBase 0])] []] [c] = false.
Proof. vm_compute. split; reflexivity. Qed.
Print Assumptions closure_certificate_nonvacuous.
