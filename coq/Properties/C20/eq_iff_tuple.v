(* C20: == on options is exactly equality of all four attributes (as_tuple covers them),
   and two constructor calls give equal options iff the flags agree and the feature
   arguments denote the same set. *)
From Coq Require Import List String Bool.
Import ListNotations.
Require Import MV.Opts.OptionsSyntax MV.Generated.C20_gen MV.Opts.Options MV.Opts.OptionsProofs.

Theorem eq_iff_tuple : forall o1 o2 : options, opt_eqb o1 o2 = true <-> o1 = o2.
Proof. exact opt_eqb_eq. Qed.
Theorem eq_iff_constructor_args : forall r u i s r' u' i' s',
  mk (ABool r) (ABool u) (ABool i) (ASpell s) = mk (ABool r') (ABool u') (ABool i') (ASpell s')
  <-> r = r' /\ u = u' /\ i = i' /\ (forall f, In f (spell_set s) <-> In f (spell_set s')).
Proof. exact mk_eq_iff. Qed.
Print Assumptions eq_iff_tuple.
Print Assumptions eq_iff_constructor_args.
