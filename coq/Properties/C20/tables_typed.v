(* C20: per-run side conditions on the tables generated from converter.py. *)
From Coq Require Import List String Bool.
Import ListNotations.
Require Import MV.Opts.OptionsSyntax MV.Generated.C20_gen MV.Opts.Options MV.Opts.OptionsProofs.

Theorem tables_typed : tables_typed = true /\ (forall f, In f as_tuple_gen) /\ (forall f, In f all_features).
Proof. split; [exact tables_typed_ok | split; [exact as_tuple_covers | exact all_features_complete]]. Qed.
Print Assumptions tables_typed.
