(* C20: a feature is reported in use exactly when it or ALL was requested. *)
From Coq Require Import List String Bool.
Import ListNotations.
Require Import MV.Opts.OptionsSyntax MV.Generated.C20_gen MV.Opts.Options MV.Opts.OptionsProofs.

Theorem uses_spec : forall r u i s f,
  uses (mk r u i (ASpell s)) f = true <-> In ALL (spell_set s) \/ In f (spell_set s).
Proof. exact uses_requested. Qed.
Example uses_nonvacuous : uses (mk (ABool true) (ABool true) (ABool true) (ASpell (SpSingle LISTS))) NAME_SCOPES = false
  /\ uses (mk (ABool true) (ABool true) (ABool true) (ASpell (SpSingle ALL))) NAME_SCOPES = true.
Proof. vm_compute; split; reflexivity. Qed.
Print Assumptions uses_spec.
