(* C20: the options handed to callees keep the recursion flag and feature set, drop the
   user-requested flag and allow converting user code exactly when recursion is on. *)
From Coq Require Import List String Bool.
Import ListNotations.
Require Import MV.Opts.OptionsSyntax MV.Generated.C20_gen MV.Opts.Options MV.Opts.OptionsProofs.

Theorem call_options_spec : forall o : options, wf o ->
  call_options o = {| recursive := recursive o; user_requested := false;
                      internal := recursive o; features := features o |}
  /\ wf (call_options o).
Proof. intros o W; split; [exact (call_options_spec o W) | apply call_options_wf]. Qed.
Print Assumptions call_options_spec.
