(* C20: options key the conversion cache.  get_caching_key (malt/impl/api.py, translated on this run into
   cache_key_gen) covers every attribute that == compares (first theorem, re-checked by computation on the generated
   tables); hence two option values with equal cache keys are equal, and code cached for one value -- whose embedded
   ag__.ConversionOptions(...) expression evaluates back to that value (to_ast_roundtrip) -- is only ever reused for a
   request with equal options: the options found in reused code are the requested ones. *)
From Coq Require Import List String Bool.
Import ListNotations.
Require Import MV.Opts.OptionsSyntax MV.Generated.C20_gen MV.Opts.Options MV.Opts.OptionsProofs MV.Opts.CacheKey.

Theorem cache_key_covers_eq : covers cache_key_gen as_tuple_gen = true.
Proof. vm_compute; reflexivity. Qed.

Theorem cache_key_complete : forall o1 o2 : options, key_eqb o1 o2 = true -> o1 = o2.
Proof.
  intros o1 o2 H. apply opt_eqb_eq. unfold opt_eqb, as_tuple.
  exact (covers_key_complete_lemma cache_key_gen as_tuple_gen (get o1) (get o2) cache_key_covers_eq H).
Qed.

Theorem reused_code_embeds_requested_options : forall (cached requested : options) (ord : list feature),
  wf cached -> (forall f, In f ord <-> In f (features cached)) ->
  key_eqb cached requested = true ->
  eval_oexpr (to_ast cached ord) = requested.
Proof.
  intros c r ord W H K. rewrite (to_ast_roundtrip c ord W H). exact (cache_key_complete c r K).
Qed.

(* a key without user_requested (the kind of "optimisation" that keys only on what steers the passes) is not
   complete: the options of a callee conversion would be found in code converted for a user request *)
Example key_without_user_requested_refuted :
  let ks := [FRecursive; FInternal; FFeatures] in
  let o1 := mk (ABool true) (ABool true) (ABool true) (ASpell SpNone) in
  let o2 := mk (ABool true) (ABool false) (ABool true) (ASpell SpNone) in
  covers ks as_tuple_gen = false /\
  list_beq fval_beq (map (get o1) ks) (map (get o2) ks) = true /\ o1 <> o2.
Proof. vm_compute. repeat split; discriminate. Qed.
(* the cache of "call as-is" verdicts (conversion._ALLOWLIST_CACHE, consulted first by converted_call) is keyed alike *)
Theorem allowlist_key_covers_eq : covers allowlist_key_gen as_tuple_gen = true.
Proof. vm_compute; reflexivity. Qed.
Theorem allowlist_key_complete : forall o1 o2 : options,
  list_beq fval_beq (map (get o1) allowlist_key_gen) (map (get o2) allowlist_key_gen) = true -> o1 = o2.
Proof.
  intros o1 o2 H. apply opt_eqb_eq. unfold opt_eqb, as_tuple.
  exact (covers_key_complete_lemma allowlist_key_gen as_tuple_gen (get o1) (get o2) allowlist_key_covers_eq H).
Qed.
Print Assumptions allowlist_key_complete.
Print Assumptions cache_key_complete.
Print Assumptions reused_code_embeds_requested_options.
Print Assumptions cache_key_covers_eq.
