(* C20: "the options handed to callees keep the recursion flag and feature set, drop the user-requested flag and
   allow converting user code exactly when recursion is on" -- at the place where converted code actually obtains
   them: the function scope of a converted def (`with ag__.FunctionScope(..) as fscope`) or of a converted lambda
   (`ag__.with_function_scope(..)`), from which ag__.converted_call(f, args, kwargs, scope) reads the options f is
   converted under (tables translated on this run from function_wrappers.py / operators/__init__.py / api.py).
   For EVERY process (sequence of scope entries of both kinds with arbitrary options, after an arbitrary history of
   earlier entries) each entry hands its body a scope that reports that entry's options and whose callee options
   are their call_options(); along a chain of converted calls of any depth the callee options stay that value. *)
From Coq Require Import List String Bool.
Import ListNotations.
Require Import MV.Opts.OptionsSyntax MV.Generated.C20_gen MV.Opts.Options MV.Opts.OptionsProofs MV.Opts.CacheKey
  MV.Opts.Scope MV.Opts.ScopeProofs.

Theorem scope_tables_ok : scope_tables_ok = true.
Proof. exact scope_tables_ok_true. Qed.

Theorem callee_options_through_scopes :
  forall (hist : list scope) (reqs : list (ekind * options)) (n : nat) (k : ekind) (o : options),
  hist_ok hist -> wf o -> nth_error reqs n = Some (k, o) ->
  exists s, nth_error (run hist reqs) n = Some s /\ s_options s = o /\
    callee_options s = {| recursive := recursive o; user_requested := false;
                          internal := recursive o; features := features o |}.
Proof. exact run_entry_spec. Qed.

Theorem callee_chain_keeps_options : forall (o : options) (n : nat), wf o ->
  chain o (S n) = {| recursive := recursive o; user_requested := false;
                     internal := recursive o; features := features o |}.
Proof. intros o n W. exact (proj1 (chain_spec o n W)). Qed.

(* the statement is about entry disciplines in general: an entry point that reuses scope instances is fine exactly
   when its key covers every attribute == compares *)
Theorem memoising_entry_sound : forall (tbl : list (sattr * ssrc)) (ef el : sentry),
  init_table_ok tbl = true -> entry_ok ef = true -> entry_ok el = true ->
  forall reqs, run_with tbl ef el [] reqs = map (fun r => mkscope (snd r) (call_options (snd r))) reqs.
Proof.
  intros tbl ef el T Ef El reqs. rewrite (run_with_spec tbl ef el T Ef El reqs [] (Forall_nil _)).
  apply map_ext. intros r. apply init_scope_with_spec; exact T.
Qed.

(* non-vacuity / what the side condition excludes: a lambda entry that shares one scope per recursion flag (the
   "what a scope hands on follows from the recursion flag alone" shortcut) hands the second lambda the feature set
   of the first *)
Example scope_shared_per_recursion_flag_refuted :
  let el := EnMemo [FRecursive] in
  let o1 := mk (ABool true) (ABool false) (ABool true) (ASpell SpNone) in
  let o2 := mk (ABool true) (ABool false) (ABool true) (ASpell (SpSeq all_features)) in
  entry_ok el = false /\
  exists s, nth_error (run_with scope_init_gen EnFresh el [] [(KLambda, o1); (KLambda, o2)]) 1 = Some s /\
            features (s_callopts s) <> features (call_options o2).
Proof. split; [vm_compute; reflexivity|]. eexists. split; [vm_compute; reflexivity|]. vm_compute. discriminate. Qed.

Print Assumptions scope_tables_ok.
Print Assumptions callee_options_through_scopes.
Print Assumptions callee_chain_keeps_options.
Print Assumptions memoising_entry_sound.
Print Assumptions scope_shared_per_recursion_flag_refuted.
