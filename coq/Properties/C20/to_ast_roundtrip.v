(* C20: the source form of the options embedded in generated code evaluates back
   to an equal options value -- for every options value (any number of features in
   the enumeration), every iteration order of the frozenset. *)
From Coq Require Import List String Bool.
Import ListNotations.
Require Import MV.Opts.OptionsSyntax MV.Generated.C20_gen MV.Opts.Options MV.Opts.OptionsProofs.

Theorem to_ast_roundtrip : forall (o : options) (ord : list feature),
  wf o -> (forall f, In f ord <-> In f (features o)) ->
  eval_oexpr (to_ast o ord) = o /\ opt_eqb (eval_oexpr (to_ast o ord)) o = true.
Proof. intros o ord W H; split; [|apply opt_eqb_eq]; exact (to_ast_roundtrip o ord W H). Qed.
(* every value the constructor can produce is wf, whatever the spelling *)
Theorem constructed_wf : forall r u i fs, wf (mk r u i fs).
Proof. exact mk_wf. Qed.
Example roundtrip_nonvacuous :
  let o := mk (ABool false) (ABool true) (ABool true) (ASpell (SpSeq [LISTS; ALL; LISTS])) in
  wf o /\ to_ast o [LISTS; ALL] <> EStd /\ eval_oexpr (to_ast o [LISTS; ALL]) = o.
Proof. vm_compute; repeat split; discriminate. Qed.
Print Assumptions to_ast_roundtrip.
Print Assumptions constructed_wf.
