(* C20: unequal options compare unequal (so different option sets never alias as cache keys). *)
From Coq Require Import List String Bool.
Import ListNotations.
Require Import MV.Opts.OptionsSyntax MV.Generated.C20_gen MV.Opts.Options MV.Opts.OptionsProofs.

Theorem neq_distinct : forall o1 o2 : options, o1 <> o2 -> opt_eqb o1 o2 = false.
Proof. exact opt_neq. Qed.
Example neq_nonvacuous :
  opt_eqb (mk (ABool true) (ABool false) (ABool true) (ASpell SpNone))
          (mk (ABool true) (ABool false) (ABool true) (ASpell (SpSingle ALL))) = false.
Proof. vm_compute; reflexivity. Qed.
Print Assumptions neq_distinct.
