(* C20: equal options hash equally, for any hash function of the attribute tuple. *)
From Coq Require Import List String Bool.
Import ListNotations.
Require Import MV.Opts.OptionsSyntax MV.Generated.C20_gen MV.Opts.Options MV.Opts.OptionsProofs.

Theorem eq_hash : forall (H : Type) (h : list fval -> H) (o1 o2 : options),
  opt_eqb o1 o2 = true -> opt_hash h o1 = opt_hash h o2.
Proof. intros H h; exact (opt_eqb_hash h). Qed.
Print Assumptions eq_hash.
