(* C18 known finding anf-dict-order: {k1(): v1(), k2(): v2()} logs k1, v1, k2, v2 originally and
   k1, k2, v1, v2 after ANF (faithful model, Python order of dict displays = pyview). *)
From Coq Require Import List String Bool.
Import ListNotations.
Require Import MV.Anf.Anf MV.Anf.AnfSem.
Local Open Scope string_scope.

Definition c (f : string) (e : expr) : child := (f, WPlain, e).
Definition call (fn : string) := EOp KCall "" [c "func" (EName fn)].
Definition dct := EOp KDict "" [c "keys" (call "k1"); c "keys" (call "k2"); c "values" (call "v1"); c "values" (call "v2")].

Theorem anf_dict_order_refuted :
  exists e e' H n', anf_expr default_config e 0 = Some (e', H, n') /\ guard_expr default_config e 0 = false
    /\ fst (log_eval (fun _ => "?") e) <> fst (log_run H e').
Proof. exists dct. eexists. eexists. eexists. split; [vm_compute; reflexivity|]. split; [vm_compute; reflexivity|]. vm_compute. discriminate. Qed.
Print Assumptions anf_dict_order_refuted.
