(* C18: the transformer is parametric in how the variables of the program are spelled.  For EVERY
   renaming r of variables (injective or not; also onto the names the implementation uses for its own
   purposes, such as the placeholders of the template of the hoisted statement) and every rewriting
   lab of node labels, every configuration and every program: transforming the renamed program gives
   the renamed transformation of the program -- same acceptance, same temporaries, every hoisted
   right-hand side is the renamed operand and nothing else.  With anf_preserves_events (which holds for
   every environment rho) this is the hygiene half of the property: no spelling of a user variable
   changes what is hoisted, duplicated or captured.
   Tie to the implementation: the hygiene stream of tools/props/c18.py checks the same equation on the
   real anf.transform for programs whose variables are renamed to the identifiers harvested from
   anf.py / templates.py / transformer.py of the tree under test; the per-run obligation tables_ok
   checks that the hoisted statement is the template "<target> = <value>". *)
From Coq Require Import List String Bool.
Import ListNotations.
Require Import MV.Anf.Anf MV.Anf.AnfRename MV.Anf.AnfRenameProofs.
Local Open Scope string_scope.

Theorem anf_renaming_invariant :
  forall (r : string -> string) (lab : tag -> string -> string) (cfg : config) (b : list stmt),
    transform cfg (ren_block r lab b) = option_map (ren_block r lab) (transform cfg b).
Proof. exact transform_ren. Qed.

(* non-vacuity: `return f(g(h(y)))` with y renamed to the placeholder name `expr`, default
   configuration: accepted, three hoisted statements, the first one is tmp_1001 = h(expr) *)
Example renaming_nonvacuous :
  let c (f : string) (e : expr) : child := (f, WPlain, e) in
  let call (f : string) (a : expr) := EOp KCall "" [c "func" (EName f); c "args" a] in
  let p := [SReturn (Some (call "f" (call "g" (call "h" (EName "y")))))] in
  let r := fun x => if String.eqb x "y" then "expr" else x in
  transform default_config (ren_block r (fun _ l => l) p) =
  Some [SAssign [ETmp 1] (call "h" (EName "expr")); SAssign [ETmp 2] (call "g" (ETmp 1));
        SAssign [ETmp 3] (call "f" (ETmp 2)); SReturn (Some (ETmp 3))].
Proof. vm_compute. reflexivity. Qed.
Print Assumptions anf_renaming_invariant.
