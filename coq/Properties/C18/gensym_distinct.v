(* C18: the temporaries introduced for one expression are the consecutive counters n+1 .. n', each
   assigned by exactly one hoisted statement; their printed names stem ++ decimal(base + i)
   (generated: "tmp_", 1000) are pairwise distinct and differ from every user name that is not of
   the gensym shape stem ++ digits. *)
From Coq Require Import List String Bool Arith.
Import ListNotations.
Require Import MV.Anf.Anf MV.Anf.AnfProofs MV.Generated.C18_gen.

Theorem gensym_distinct :
  (forall cfg e n e' H n', anf_expr cfg e n = Some (e', H, n') ->
     NoDup (map fst H) /\ (forall t, In t (map fst H) -> n < t <= n'))
  /\ (forall i j, render gensym_stem_gen gensym_base_gen i = render gensym_stem_gen gensym_base_gen j -> i = j)
  /\ (forall i x, ~ gensym_shape gensym_stem_gen x -> render gensym_stem_gen gensym_base_gen i <> x).
Proof.
  split; [exact pending_nodup|]. split; [apply render_inj|intros; now apply render_not_user].
Qed.
Example render_1 : render gensym_stem_gen gensym_base_gen 1 = "tmp_1001"%string.
Proof. vm_compute. reflexivity. Qed.
Print Assumptions gensym_distinct.
