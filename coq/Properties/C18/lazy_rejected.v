(* C18: constructs whose laziness cannot be preserved are rejected rather than transformed:
   comprehensions / generator expressions / chained comparisons always; BoolOp / IfExp / lambda as
   soon as anything would have to be hoisted out of them (when accepted they are returned unchanged,
   nothing is hoisted and the counter does not move); a while statement as soon as its test needs a
   hoisted statement; a try statement as soon as anything would have to be hoisted out of the type
   expression of one of its except clauses (evaluated only while an exception propagates, after the
   body and the clauses before it): when accepted, no statement is put in front of the try statement
   and every except clause keeps the type expression it had. *)
From Coq Require Import List String Bool.
Import ListNotations.
Require Import MV.Anf.Anf MV.Anf.AnfProofs MV.Anf.AnfRenameProofs.
Local Open Scope string_scope.

Theorem lazy_rejected :
  (forall cfg k n, anf_expr cfg (EBad k) n = None)
  /\ (forall cfg k lab cs n e' H n', triv_only k = true ->
        anf_expr cfg (EOp k lab cs) n = Some (e', H, n') -> H = [] /\ e' = EOp k lab cs /\ n' = n)
  /\ (forall cfg e b1 b2 n r, anf_stmt cfg (SWhile e b1 b2) n = Some r ->
        exists e' n1, anf_named cfg KWhile "test" e n = Some (e', [], n1))
  /\ (forall cfg b hs o f n ss n', anf_stmt cfg (STry b hs o f) n = Some (ss, n') ->
        exists b' hs' o' f', ss = [STry b' hs' o' f'] /\ map htype hs' = map htype hs).
Proof.
  split; [reflexivity|]. split; [|split; [|exact try_except_types_kept]].
  - intros cfg k lab cs n e' H n' T E. pose proof (lazy_no_hoist _ _ _ _ _ _ _ _ T E) as N. subst H.
    destruct (no_hoist_unchanged _ _ _ _ _ E). auto.
  - intros cfg e b1 b2 n r E. simpl in E.
    destruct (anf_named cfg KWhile "test" e n) as [[[e' [|p H]] n1]|]; try discriminate. eauto.
Qed.
(* non-vacuity: `a() and b` is rejected, `a and b` is accepted unchanged *)
Example lazy_nonvacuous :
  anf_expr default_config (EOp KBoolOp "And" [("values", WPlain, EOp KCall "" [("func", WPlain, EName "a")]); ("values", WPlain, EName "b")]) 0 = None
  /\ anf_expr default_config (EOp KBoolOp "And" [("values", WPlain, EName "a"); ("values", WPlain, EName "b")]) 0 <> None.
Proof. vm_compute. split; [reflexivity|discriminate]. Qed.
(* non-vacuity: `try: pass / except g(h(b)): pass` is rejected, `try: pass / except g(b): pass` is accepted (unchanged)
   under the default configuration *)
Example lazy_try_nonvacuous :
  let call (f : string) (a : expr) := EOp KCall "" [("func", WPlain, EName f); ("args", WPlain, a)] in
  anf_stmt default_config (STry [SPass] [(Some (call "g" (call "h" (EName "b"))), None, [SPass])] [] []) 0 = None
  /\ anf_stmt default_config (STry [SPass] [(Some (call "g" (EName "b")), None, [SPass])] [] []) 0
     = Some ([STry [SPass] [(Some (call "g" (EName "b")), None, [SPass])] [] []], 0).
Proof. vm_compute. split; reflexivity. Qed.
Print Assumptions lazy_rejected.
