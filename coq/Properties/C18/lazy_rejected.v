(* C18: constructs whose laziness cannot be preserved are rejected rather than transformed:
   comprehensions / generator expressions / chained comparisons always; BoolOp / IfExp / lambda as
   soon as anything would have to be hoisted out of them (when accepted they are returned unchanged,
   nothing is hoisted and the counter does not move); a while statement as soon as its test needs a
   hoisted statement. *)
From Coq Require Import List String Bool.
Import ListNotations.
Require Import MV.Anf.Anf MV.Anf.AnfProofs.
Local Open Scope string_scope.

Theorem lazy_rejected :
  (forall cfg k n, anf_expr cfg (EBad k) n = None)
  /\ (forall cfg k lab cs n e' H n', triv_only k = true ->
        anf_expr cfg (EOp k lab cs) n = Some (e', H, n') -> H = [] /\ e' = EOp k lab cs /\ n' = n)
  /\ (forall cfg e b1 b2 n r, anf_stmt cfg (SWhile e b1 b2) n = Some r ->
        exists e' n1, anf_named cfg KWhile "test" e n = Some (e', [], n1)).
Proof.
  split; [reflexivity|]. split.
  - intros cfg k lab cs n e' H n' T E. pose proof (lazy_no_hoist _ _ _ _ _ _ _ _ T E) as N. subst H.
    destruct (no_hoist_unchanged _ _ _ _ _ E). auto.
  - intros cfg e b1 b2 n r E. simpl in E.
    destruct (anf_named cfg KWhile "test" e n) as [[[e' [|p H]] n1]|]; try discriminate. eauto.
Qed.
(* non-vacuity: `a() and b` is rejected, `a and b` is accepted unchanged *)
Example lazy_nonvacuous :
  anf_expr default_config (EOp KBoolOp "And" [("values", WPlain, EOp KCall "" [("func", WPlain, EName "a")]); ("values", WPlain, EName "b")]) 0 = None
  /\ anf_expr default_config (EOp KBoolOp "And" [("values", WPlain, EName "a"); ("values", WPlain, EName "b")]) 0 <> None.
Proof. vm_compute. split; [reflexivity|discriminate]. Qed.
Print Assumptions lazy_rejected.
