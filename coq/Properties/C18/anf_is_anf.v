(* C18: after the transformation every operand position of the rewritten expression and of every
   hoisted right-hand side that the active configuration asks to be named (first matching rule says
   REPLACE) holds a trivial node (a name / temporary / Ellipsis) -- for every configuration. *)
From Coq Require Import List String Bool.
Import ListNotations.
Require Import MV.Anf.Anf MV.Anf.AnfProofs.

Theorem anf_is_anf : forall cfg e n e' H n',
  anf_expr cfg e n = Some (e', H, n') ->
  in_anf cfg e' = true /\ forallb (fun p => in_anf cfg (snd p)) H = true.
Proof. exact anf_expr_in_anf. Qed.
Print Assumptions anf_is_anf.
