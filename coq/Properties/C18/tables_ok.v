(* C18: per-run side conditions on the tables generated from anf.py: every visit_<Node> method
   dispatches the way the hand model assumes (strict / trivial-only / rejected), the default
   configuration is (ANY, ANY, (Constant, Name)) LEAVE ; (ANY, ANY, expr) REPLACE, keyword /
   Starred / withitem are transparent wrappers, the gensym is stem "tmp_" from 1000, and the classes
   _is_trivial never hoists are reads of variables, non-node field values, operator tokens and
   expression contexts only (no node kind whose evaluation is an effect), and the statement
   _do_transform_node creates for a hoisted operand is the template "<target> = <value>" over two
   different placeholder names. *)
From Coq Require Import List String Bool.
Import ListNotations.
Require Import MV.Anf.Anf MV.Generated.C18_gen.
Local Open Scope string_scope.

Theorem tables_ok :
  table_ok visit_table = true /\ default_rules_ok default_rules_gen = true /\ wrappers_ok wrappers_gen = true
  /\ gensym_stem_gen = "tmp_" /\ gensym_base_gen = 1000 /\ trivial_ok trivial_types_gen = true
  /\ hoist_template_ok hoist_template_gen = true.
Proof. vm_compute. repeat split; reflexivity. Qed.
Print Assumptions tables_ok.
