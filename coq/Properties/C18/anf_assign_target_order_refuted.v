(* C18 known finding anf-assign-target-order: a[T(idx)] = T(val): Python evaluates the right-hand
   side first; the transformer emits tmp_1001 = T(idx) BEFORE the assignment whose right-hand side
   T(val) stays in place (faithful model of visit_Assign), and the statement guard is false. *)
From Coq Require Import List String Bool.
Import ListNotations.
Require Import MV.Anf.Anf.
Local Open Scope string_scope.

Definition c (f : string) (e : expr) : child := (f, WPlain, e).
Definition T (s : string) := EOp KCall "" [c "func" (EName "T"); c "args" (EConst s)].
Definition prog := [SAssign [EOp KSubscript "" [c "value" (EName "a"); c "slice" (T "'idx'")]] (T "'val'")].

Theorem anf_assign_target_order_refuted :
  exists p, guard default_config p = false /\
    transform default_config p =
      Some [SAssign [ETmp 1] (T "'idx'");
            SAssign [EOp KSubscript "" [c "value" (EName "a"); c "slice" (ETmp 1)]] (T "'val'")].
Proof. exists prog. split; vm_compute; reflexivity. Qed.
Print Assumptions anf_assign_target_order_refuted.
