(* C18: for EVERY interpretation of the operations (any effect on the world, any result, any
   exception), every configuration and every expression the transformer accepts and whose shape
   satisfies the order guard: running the hoisted statements tmp_i = e_i in order and then
   evaluating the rewritten expression has exactly the effect on the world, the result and the
   exception of evaluating the original expression.
   _partial: proved for expressions (the operand of every statement position: Expr, Return, Raise,
   Assign value, If test, For iter, With item -- anf_stmt emits `flush H ++ [stmt e']`); the
   statement-level composition (blocks re-executed by loops, targets of Assign/AugAssign, the
   extra naming of Return/If/For/With operands) is validated by the correspondence and the oracle,
   not proved.  The guard is what the known findings anf-sibling-order, anf-dict-order and
   anf-starred-unpack-order violate (companion files *_refuted.v). *)
From Coq Require Import List String Bool.
Import ListNotations.
Require Import MV.Anf.Anf MV.Anf.AnfSem MV.Anf.AnfProofs MV.Anf.AnfOrder.
Local Open Scope string_scope.

Theorem anf_preserves_events_partial :
  forall (value world : Type)
         (interp : tag -> string -> list (string * wrap * value) -> M value world value)
         (build : tag -> list value -> value) (unpack : wrap -> value -> M value world value)
         (opaque : expr -> (string -> value) -> M value world value)
         (const_val rho : string -> value) (cfg : config)
         (e : expr) (n : nat) (e' : expr) (H : list pend) (n' : nat) (tau : nat -> value) (w : world),
    tmps_le n e = true ->                        (* the program mentions no temporary beyond the counter *)
    anf_expr cfg e n = Some (e', H, n') ->        (* accepted *)
    guard_expr cfg e n = true ->                  (* shape guard *)
    eval value world interp build unpack opaque const_val rho tau e w =
    bind value world (run_pending value world interp build unpack opaque const_val rho H tau)
         (fun t => eval value world interp build unpack opaque const_val rho t e') w.
Proof. intros. eapply anf_expr_preserves; eauto. Qed.

(* non-vacuity: f(g(a), b).m[c] under the default configuration is accepted, satisfies the guard
   and is rewritten into four hoisted statements *)
Example preserves_nonvacuous :
  let c (f : string) (e : expr) : child := (f, WPlain, e) in
  let e := EOp KSubscript "" [c "value" (EOp KAttribute "m" [c "value"
             (EOp KCall "" [c "func" (EName "f"); c "args" (EOp KCall "" [c "func" (EName "g"); c "args" (EName "a")]);
                            c "args" (EName "b")])]); c "slice" (EName "c")] in
  guard_expr default_config e 0 = true /\
  match anf_expr default_config e 0 with Some (_, H, _) => List.length H = 3 | None => False end.
Proof. vm_compute. split; reflexivity. Qed.
Print Assumptions anf_preserves_events_partial.
