(* C18 known finding anf-sibling-order: without the guard the statement of anf_preserves_events is
   false on the faithful model: f(a()) + g(b()) logs a, f, b, g originally and a, b, f, g after ANF. *)
From Coq Require Import List String Bool.
Import ListNotations.
Require Import MV.Anf.Anf MV.Anf.AnfSem.
Local Open Scope string_scope.

Definition c (f : string) (e : expr) : child := (f, WPlain, e).
Definition call (fn : string) (args : list expr) := EOp KCall "" (c "func" (EName fn) :: map (c "args") args).
Definition sib := EOp KBinOp "Add" [c "left" (call "f" [call "a" []]); c "right" (call "g" [call "b" []])].

Theorem anf_sibling_order_refuted :
  exists e e' H n', anf_expr default_config e 0 = Some (e', H, n') /\ guard_expr default_config e 0 = false
    /\ fst (log_eval (fun _ => "?") e) <> fst (log_run H e').
Proof. exists sib. eexists. eexists. eexists. split; [vm_compute; reflexivity|]. split; [vm_compute; reflexivity|]. vm_compute. discriminate. Qed.
Print Assumptions anf_sibling_order_refuted.
