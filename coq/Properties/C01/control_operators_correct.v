(* C01, factor 5: the default (pure-Python) implementations of the control-flow operators the converted code calls --
   malt/operators/control_flow.py if_stmt, while_stmt, for_stmt -- translated from the source ON THIS RUN into
   ctl_ops_gen (first theorem: they are the terms the proofs are about), follow the protocol of the native statements
   for EVERY record of callbacks (test / extra test, body, orelse, iterator; each may change the state and may raise),
   every state and any fuel:
     if_stmt      runs body() when cond holds, orelse() otherwise, nothing else;
     while_stmt   test, body, test, body, ... until the test is false or something raises; never touches get_state /
                  set_state (the translator checks they are deleted and unused);
     for_stmt     without extra test: fetch, body, fetch, body, ... until the iterator is exhausted;
                  with an extra test (what a lowered break / return leaves): the test is evaluated before every item
                  is fetched -- no item is consumed after the test turned false -- stated for every result other
                  than running out of fuel (the operator evaluates the test at the end of an iteration, the protocol
                  at the start of the next: same sequence of callback invocations, one unit of fuel apart).
   Models: CtlOps.exec (validated on every run against the real operators called with logging callbacks driven by
   decision lists, CtlCheck.v), ref_* (the protocol of the native statement, which coq/Fn's loops follow). *)
From Coq Require Import List Arith Bool.
Import ListNotations.
Require Import MV.Ops.CtlOps MV.Ops.CtlOpsProofs MV.Ops.CtlCheck MV.Generated.C01_ctl_gen.

Theorem control_operators_as_modelled : ctl_ops_gen = std_ctl_ops.
Proof. reflexivity. Qed.

Theorem if_operator_correct : forall St val (cb : callbacks St val) fuel s,
  execs St val cb fuel (op_if ctl_ops_gen) None s = ref_if St val cb s.
Proof. rewrite control_operators_as_modelled. exact if_operator_lemma. Qed.

Theorem while_operator_correct : forall St val (cb : callbacks St val) fuel s,
  execs St val cb fuel (op_while ctl_ops_gen) None s = ref_while St val cb fuel s.
Proof. rewrite control_operators_as_modelled. exact while_operator_lemma. Qed.

Theorem for_operator_correct_plain : forall St val (cb : callbacks St val) fuel s,
  cb_has_extra St val cb = false ->
  execs St val cb fuel (op_for ctl_ops_gen) None s = ref_for St val cb fuel s.
Proof. rewrite control_operators_as_modelled. exact for_operator_plain_lemma. Qed.

Theorem for_operator_correct_extra : forall St val (cb : callbacks St val) fuel s r,
  cb_has_extra St val cb = true -> nofuel St r ->
  (execs St val cb fuel (op_for ctl_ops_gen) None s = r -> ref_for St val cb (S fuel) s = r) /\
  (ref_for St val cb (S fuel) s = r -> execs St val cb (S fuel) (op_for ctl_ops_gen) None s = r).
Proof. rewrite control_operators_as_modelled. exact for_operator_extra_lemma. Qed.

(* non-vacuity, on the logging callbacks of the harness: a for loop with extra test over items 5, 6, 7 whose test turns
   false after the second body: events test, fetch, body(5), test, fetch, body(6), test -- item 7 is never fetched *)
Example for_extra_runs :
  execs cst nat (std_cb false true) 9 (op_for ctl_ops_gen) None ([1; 5; 7; 1; 6; 7; 0; 7], [])
  = Val Next ([7], [(1, 0); (4, 0); (2, 5); (1, 0); (4, 0); (2, 6); (1, 0)])
  /\ ref_for cst nat (std_cb false true) 9 ([1; 5; 7; 1; 6; 7; 0; 7], [])
  = Val Next ([7], [(1, 0); (4, 0); (2, 5); (1, 0); (4, 0); (2, 6); (1, 0)]).
Proof. vm_compute. split; reflexivity. Qed.

(* an operator that tests only at the top of the loop statement (`for target in iter_: if not test(): break; body`)
   would consume one more item: this is why the position of the test matters *)
Example test_after_fetch_differs :
  let late := one (SFor (BCons (SIf (XNot XTest) (one SBreak) BNil) (one SBody))) in
  execs cst nat (std_cb false true) 9 late None ([5; 1; 7; 6; 0; 7], [])
  = Val Next ([7], [(4, 0); (1, 0); (2, 5); (4, 0); (1, 0)]).
Proof. vm_compute. reflexivity. Qed.
Print Assumptions control_operators_as_modelled.
Print Assumptions if_operator_correct.
Print Assumptions while_operator_correct.
Print Assumptions for_operator_correct_plain.
Print Assumptions for_operator_correct_extra.
