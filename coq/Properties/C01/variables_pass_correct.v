(* C01, factor 4: malt/converters/variables.py -- every read of a user variable becomes ag__.ld(x), `del x` becomes
   `ag__.ld(x); x = ag__.Undefined('x')`, `x op= e` becomes `x = ag__.ld(x); x op= e'` -- preserves behaviour.
   For every block of the core language (assignments to names and to attributes / items, augmented assignments,
   del statements with several targets, expression statements, if, while; operands arbitrary nests of opaque user
   operations), every user-operation function `opres` (it may raise), every truth function, any fuel:
   started from a store c that is related to the original's store o -- a variable bound in o has the same value in
   c; a variable unbound in o is unbound in c or holds its placeholder Undefined('x'), which is how control_flow.py
   initialises the variables that may be undefined -- the converted block ends the same way (normally, NameError of
   the same variable, exception of the same user operation, same loop bound exceeded), with the same ordered log of
   user-visible events (operations with their argument values, stores into and deletions from objects), in related
   stores; and the placeholder never reaches a user operation, a test, a stored value or an arithmetic operand
   (outcome XLeak impossible on both sides).
   `gen` marks the names the converter itself generated (read without ld because they carry no original definitions):
   they must be bound whenever read and are never deleted -- the side condition src_b.
   Models: VarLang.vtb (same function on the generic trees, gvt, is tied to the real pass by structural comparison on
   every run; pass_models_agree below links the two), VarLang.execb (validated against CPython, source and
   converted form with the real ag__.ld / ag__.Undefined, on every run). *)
From Coq Require Import List Arith Bool.
Import ListNotations.
Require Import MV.Vars.VarLang MV.Vars.VarProofs MV.Vars.VarCheck.

Theorem pass_models_agree : forall b, gvts (emb_b b) = emb_b (vtb b).
Proof. exact (proj2 emb_vts_all). Qed.

Theorem variables_pass_correct : forall opres truthy gen b fuel s s',
  src_b gen b = true -> RS gen s s' ->
  let p := execb opres truthy fuel b s in
  let p' := execb opres truthy fuel (vtb b) s' in
  fst p = fst p' /\ log (snd p) = log (snd p') /\ R gen (sto (snd p)) (sto (snd p')) /\
  fst p <> Exc XLeak /\ fst p' <> Exc XLeak.
Proof. exact variables_pass_correct_lemma. Qed.

(* non-vacuity: v1 unbound in the original and a placeholder in the converted function; v2 = 3, v7 generated.
     if W(5, v7): v1 = W(6, v2)
     v2 += v1            <- NameError of v1 when the branch was not taken
     del v2, S20[v1]
     W(8, v2)            <- NameError of v2 *)
Definition ex_b : block :=
  BCons (SIf (EOp 5 (ECons (EName 7 false) ENil)) (BCons (SAssign (TgName 1) (EOp 6 (ECons (EName 2 true) ENil))) BNil) BNil)
 (BCons (SAug (TgName 2) 0 (EName 1 true))
 (BCons (SDel (TCons (TgName 2) (TCons (TgComp 20 (ECons (EName 1 true) ENil)) TNil)))
 (BCons (SExpr (EOp 8 (ECons (EName 2 true) ENil))) BNil))).
Definition ex_gen (x : var) := Nat.eqb x 7.
Definition ex_o (g : nat) := mkst (init_store [(2, TV 3); (7, TV g)]) [].
Definition ex_c (g : nat) := mkst (init_store [(2, TV 3); (7, TV g); (1, TUndef 1)]) [].

Example ex_hyps : src_b ex_gen ex_b = true /\ forall g, RS ex_gen (ex_o g) (ex_c g).
Proof.
  split; [reflexivity|]. intros g. split; [|reflexivity].
  intros x. unfold ex_o, ex_c. simpl. unfold upd.
  destruct (Nat.eqb x 2) eqn:E2; [reflexivity|].
  destruct (Nat.eqb x 7) eqn:E7; [reflexivity|].
  destruct (Nat.eqb x 1) eqn:E1; [|now left].
  right. apply Nat.eqb_eq in E1. subst x. split; reflexivity.
Qed.
Example ex_runs :
  (* branch taken (W(5, 0) = 3): ends with the NameError of v2 after `del` *)
  outcome_code (fst (execb opres_std truthy_std 9 ex_b (ex_o 0))) = (1, 2) /\
  outcome_code (fst (execb opres_std truthy_std 9 (vtb ex_b) (ex_c 0))) = (1, 2) /\
  filter visible (log (snd (execb opres_std truthy_std 9 (vtb ex_b) (ex_c 0)))) = [EvOp 5 [0]; EvOp 6 [3]; EvDel 20 [8]] /\
  (* branch not taken (W(5, 10) = 0): NameError of v1 in the augmented assignment, raised by ld on the placeholder *)
  outcome_code (fst (execb opres_std truthy_std 9 ex_b (ex_o 10))) = (1, 1) /\
  outcome_code (fst (execb opres_std truthy_std 9 (vtb ex_b) (ex_c 10))) = (1, 1).
Proof. vm_compute. repeat split; reflexivity. Qed.

(* without the ld of the operand (the defect repaired by /repo 7e8458c: visit_AugAssign returned before visiting
   the value) the placeholder reaches the user's arithmetic: outcome XLeak *)
Definition ex_b_unwrapped : block :=
  BCons (SAssign (TgName 2) (ELd (EName 2 true))) (BCons (SAug (TgName 2) 0 (EName 1 true)) BNil).
Theorem operand_must_be_wrapped :
  outcome_code (fst (execb opres_std truthy_std 9 ex_b_unwrapped (ex_c 10))) = (3, 0) /\
  outcome_code (fst (execb opres_std truthy_std 9 (vtb (BCons (SAug (TgName 2) 0 (EName 1 true)) BNil)) (ex_c 10))) = (1, 1).
Proof. vm_compute. split; reflexivity. Qed.
Print Assumptions variables_pass_correct.
Print Assumptions pass_models_agree.
