(* C01, factor 3: conditional_expressions.py and logical_expressions.py (`a and b`, `a or b`, `not a`,
   `x if c else y`, and with Feature.EQUALITY_OPERATORS `==` / `!=`, rewritten into calls of the overloadable
   operators with lazily evaluated operands passed as lambdas) preserve the value, the ordered trace of opaque
   operations and the decisions consumed, for every source expression -- arbitrary nesting, operands with side
   effects, lambdas / comprehensions in between -- every comparison function and every decision sequence, with
   the operator implementations generated from malt/operators ON THIS RUN (`ops_gen`, first theorem).
   Excluded by `ok`: a comparison chain with two or more operators one of which is overloaded (== / != under
   EQUALITY_OPERATORS): the pass splits it and evaluates the middle operands twice -- `chain_refuted` below is
   the witness (known finding); since the repair of /repo chains without an overloaded operator are left
   native.  With EQUALITY_OPERATORS `a != b` becomes not_(eq(a, b)): the statement assumes the compared values
   satisfy (a != b) = not (a == b).
   Models: ExprLang.tr (tied to the passes by structural comparison of its output with theirs), ExprLang.ev
   (validated against CPython on generated expressions). *)
From Coq Require Import List Arith Bool.
Import ListNotations.
Require Import MV.Expr.ExprLang MV.Expr.ExprProofs MV.Expr.ExprCheck MV.Generated.C01_ops_gen.

Theorem operators_as_modelled : ops_gen = std_ops.
Proof. reflexivity. Qed.

Theorem expression_passes_correct : forall cmp eqov,
  (eqov = true -> forall a b, cmp 1 a b = notv (cmp 0 a b)) ->
  forall e d t v d', ev cmp ops_gen e d t v d' -> ok eqov e = true -> ev cmp ops_gen (tr eqov e) d t v d'.
Proof. rewrite operators_as_modelled. exact expression_passes_correct_lemma. Qed.

Corollary expression_passes_correct_exec : forall cmp eqov n e d t v d',
  (eqov = true -> forall a b, cmp 1 a b = notv (cmp 0 a b)) ->
  eval cmp ops_gen n e d = Some (t, v, d') -> ok eqov e = true -> ev cmp ops_gen (tr eqov e) d t v d'.
Proof.
  intros cmp eqov n e d t v d' H E K. apply expression_passes_correct; [exact H | | exact K].
  exact (proj1 (eval_sound cmp ops_gen n) e d t v d' E).
Qed.

(* non-vacuity:  w7(v1 and (not v2), v3 if v4 < v5 else v6) *)
Definition ex_e : expr :=
  EOp 7 [EBool true (EOp 1 []) (ENot (EOp 2 [])); EIfExp (ECmp (EOp 4 []) [(2, EOp 5 [])]) (EOp 3 []) (EOp 6 [])].
Example ex_e_ok : ok false ex_e = true /\ ok true ex_e = true.
Proof. vm_compute; split; reflexivity. Qed.
Example ex_e_runs :
  eval cmp_std ops_gen 50 ex_e [5; 0; 1; 2; 9; 4] = Some ([1; 2; 4; 5; 3; 7], 4, [])
  /\ eval cmp_std ops_gen 50 (tr false ex_e) [5; 0; 1; 2; 9; 4] = Some ([1; 2; 4; 5; 3; 7], 4, []).
Proof. vm_compute; split; reflexivity. Qed.

(* the excluded case is really different: v1 == v2 == v3 with EQUALITY_OPERATORS evaluates v2 twice *)
Definition ex_chain : expr := ECmp (EOp 1 []) [(0, EOp 2 []); (0, EOp 3 [])].
Theorem chain_refuted :
  ok true ex_chain = false /\
  eval cmp_std ops_gen 50 ex_chain [4; 4; 4] = Some ([1; 2; 3], 1, []) /\
  eval cmp_std ops_gen 50 (tr true ex_chain) [4; 4; 4; 4] = Some ([1; 2; 2; 3], 1, []).
Proof. vm_compute; repeat split; reflexivity. Qed.
Print Assumptions expression_passes_correct.
Print Assumptions expression_passes_correct_exec.
Print Assumptions operators_as_modelled.
