(* C01, factor 1a: the break canonicalisation (break -> `break_ = True; continue`, loop test
   `not break_ and test`, guarded else clause) preserves behaviour: for every program of the lowering
   language without flags, every store, every decision sequence, every terminating run (also found by the
   fuelled interpreter), the lowered program started in ANY store produces the same ordered trace of
   user atoms and user tests, the same outcome and consumes the same decisions.
   The language includes `raise`, try/except/else/finally and with: exceptions come from `raise` statements,
   the handler an exception is dispatched to is chosen by the next decision (over-approximating matching
   by type, which the passes do not touch), else runs when the body completes, finally always runs.  A
   finally clause that does not complete normally (overriding the pending jump / exception) has no
   rule, so runs reaching that are outside the statement; atoms (user statements) do not raise.
   Model = Passes.brk_block, tied to malt/converters/break_statements.py by structural comparison of
   its output with the real pass on generated programs (tools/props/c01.py). *)
From Coq Require Import List Arith Bool.
Import ListNotations.
Require Import MV.Lower.Lang MV.Lower.LangProofs MV.Lower.Passes MV.Lower.BreakProofs.

Theorem break_lowering_correct : forall b s d tr o s' d',
  run_block b s d tr o s' d' -> plain_block b = true -> o <> OBrk ->
  forall sl, exists sl', run_block (fst (fst (brk_block 5 0 b))) sl d tr o sl' d'.
Proof. exact break_lowering_correct_lemma. Qed.

Corollary break_lowering_correct_exec : forall n b s d tr o s' d',
  exec_block n b s d = (tr, o, s', d') -> done o -> plain_block b = true -> o <> OBrk ->
  forall sl, exists sl', run_block (fst (fst (brk_block 5 0 b))) sl d tr o sl' d'.
Proof. intros n b s d tr o s' d' H Ho. apply (break_lowering_correct b s d tr o s' d'). apply (proj2 (exec_sound n)); assumption. Qed.

(* non-vacuity: while t1: a2; if t3: break; a4  else: a5 -- run with the break taken on the 2nd iteration *)
Definition ex_b : block :=
  BCons (SWhile (CUser 1) (BCons (SAtom 4) (BCons (SIf (CUser 3) (BCons SBreak BNil) BNil) (BCons (SAtom 8) BNil))) (BCons (SAtom 10) BNil)) BNil.
Example ex_run : exec_block 30 ex_b (fun _ => false) [1; 0; 1; 1] = ([1; 4; 3; 8; 1; 4; 3], ONormal, (fun _ => false), []).
Proof. vm_compute. reflexivity. Qed.
Example ex_lowered_has_flag : fst (fst (brk_block 5 0 ex_b)) =
  BCons (SSet 0 false) (BCons (SWhile (CAndNot 0 (CUser 1))
     (BCons (SAtom 4) (BCons (SIf (CUser 3) (BCons (SSet 0 true) (BCons SContinue BNil)) BNil) (BCons (SAtom 8) BNil)))
     (BCons (SIf (CNot 0) (BCons (SAtom 10) BNil) BNil) BNil)) BNil).
Proof. vm_compute. reflexivity. Qed.
(* non-vacuity with exceptions: while t1: try: (if t2: break); raise r3  except: (if t4: break); a5  -- the body
   raises, handler 0 is selected (decision 0) and breaks on the second iteration *)
Definition ex_e : block :=
  BCons (SWhile (CUser 1) (BCons (STry (BCons (SIf (CUser 2) (BCons SBreak BNil) BNil) (BCons (SRaise 3) BNil))
                                      (HCons false (BCons (SIf (CUser 4) (BCons SBreak BNil) BNil) (BCons (SAtom 10) BNil)) HNil) BNil BNil) BNil) BNil) BNil.
Example ex_e_run : exec_block 40 ex_e (fun _ => false) [1; 0; 0; 0; 1; 0; 0; 1] = ([1; 2; 3; 4; 10; 1; 2; 3; 4], ONormal, (fun _ => false), []).
Proof. vm_compute. reflexivity. Qed.
Example ex_e_lowered_run :
  let '(tr, o, s, d) := exec_block 60 (fst (fst (brk_block 5 0 ex_e))) (fun _ => false) [1; 0; 0; 0; 1; 0; 0; 1] in (tr, o, d)
  = ([1; 2; 3; 4; 10; 1; 2; 3; 4], ONormal, []).
Proof. vm_compute. reflexivity. Qed.
Print Assumptions break_lowering_correct.
Print Assumptions break_lowering_correct_exec.
