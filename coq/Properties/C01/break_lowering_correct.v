(* C01, factor 1a: the break canonicalisation (break -> `break_ = True; continue`, loop test
   `not break_ and test`, guarded else clause) preserves behaviour: for every program of the lowering
   language without flags, every store, every decision sequence, every terminating run (also found by the
   fuelled interpreter), the lowered program started in ANY store produces the same ordered trace of
   user atoms and user tests, the same outcome and consumes the same decisions.
   The language includes try/except/else/finally and with under their exception-free semantics (atoms do
   not raise: handlers never run, else runs when the body completes, finally always runs; a jump out of a
   finally clause and `raise` have no rule, so runs reaching them are outside the statement).
   Model = Passes.brk_block, tied to malt/converters/break_statements.py by structural comparison of
   its output with the real pass on generated programs (tools/props/c01.py). *)
From Coq Require Import List Arith Bool.
Import ListNotations.
Require Import MV.Lower.Lang MV.Lower.LangProofs MV.Lower.Passes MV.Lower.BreakProofs.

Theorem break_lowering_correct : forall b s d tr o s' d',
  run_block b s d tr o s' d' -> plain_block b = true -> o <> OBrk ->
  forall sl, exists sl', run_block (fst (fst (brk_block 5 0 b))) sl d tr o sl' d'.
Proof. exact break_lowering_correct_lemma. Qed.

Corollary break_lowering_correct_exec : forall n b s d tr o s' d',
  exec_block n b s d = (tr, o, s', d') -> done o -> plain_block b = true -> o <> OBrk ->
  forall sl, exists sl', run_block (fst (fst (brk_block 5 0 b))) sl d tr o sl' d'.
Proof. intros n b s d tr o s' d' H Ho. apply (break_lowering_correct b s d tr o s' d'). apply (proj2 (exec_sound n)); assumption. Qed.

(* non-vacuity: while t1: a2; if t3: break; a4  else: a5 -- run with the break taken on the 2nd iteration *)
Definition ex_b : block :=
  BCons (SWhile (CUser 1) (BCons (SAtom 2) (BCons (SIf (CUser 3) (BCons SBreak BNil) BNil) (BCons (SAtom 4) BNil))) (BCons (SAtom 5) BNil)) BNil.
Example ex_run : exec_block 30 ex_b (fun _ => false) [1; 0; 1; 1] = ([1; 2; 3; 4; 1; 2; 3], ONormal, (fun _ => false), []).
Proof. vm_compute. reflexivity. Qed.
Example ex_lowered_has_flag : fst (fst (brk_block 5 0 ex_b)) =
  BCons (SSet 0 false) (BCons (SWhile (CAndNot 0 (CUser 1))
     (BCons (SAtom 2) (BCons (SIf (CUser 3) (BCons (SSet 0 true) (BCons SContinue BNil)) BNil) (BCons (SAtom 4) BNil)))
     (BCons (SIf (CNot 0) (BCons (SAtom 5) BNil) BNil) BNil)) BNil).
Proof. vm_compute. reflexivity. Qed.
Print Assumptions break_lowering_correct.
Print Assumptions break_lowering_correct_exec.
