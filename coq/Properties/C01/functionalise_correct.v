(* C01, factor 2: turning the body of every `if` / `while` / `for` into a local function (control_flow.py)
   preserves behaviour.  In the functional form a variable that the body assigns and that is not declared
   nonlocal is LOCAL to the generated body function: unbound at every entry, discarded at every exit.
   For every annotated program (statement structure, reads / writes of every statement, the live-in set the
   liveness analysis attaches to every statement, and for every compound statement the set L of names that
   are local to its generated body function) that passes the decidable conditions `chk_block` --
   the live sets are closed under the dataflow inequations of the structured program, and no local of a
   body function is live where the body is entered or left --, for every value function F of the opaque user
   statements, every store, every decision sequence and every terminating, non-stuck run of the original:
   the functional form, started in any store that agrees with the original on what is live at entry, produces
   the same events with the same values read, consumes the same decisions, and ends in a store that agrees
   on everything live at the exit (O); a run that ends in an exception ends in the same exception at the
   same point, and the stores agree on what is live where it is caught (X; nothing when it leaves the
   function).  Explicit `raise` and native try / except / else / finally statements around and inside the
   rewritten statements are part of the language (handler dispatch by decision; a finally clause must complete
   normally); a body function that is left by an exception loses its locals, which the conditions account for.
   The exporter reads L off the code control_flow.py really generates (CPython's symtable) and the live sets
   off the real analysis; the check evaluates chk_block on every exported program on every run (translation
   validation); together with C02 (the state variables are chosen so that the locals are never live) and
   C07 (the live sets are sound) this is the property for the statements control_flow.py rewrites.
   for loops carry the extra test `not flag` that break / return lowering attaches to them (tested before every
   item is pulled, as ag__.for_stmt does).
   Native `with` statements run their body in place.
   Not modelled here: context managers that swallow exceptions, exceptions raised implicitly by user statements, composite
   (attribute / subscript) stores, loop else clauses, nested function definitions. *)
From Coq Require Import List Arith Bool.
Import ListNotations.
Require Import MV.Fn.FnLang MV.Fn.FnProofs.

Theorem functionalise_correct : forall F truthy n b O X s s' d tr o s1 d1,
  chk_block b O X = true -> agree (lin b O) s s' ->
  run_block F truthy false n b s d = Some (tr, o, s1, d1) ->
  exists s1', run_block F truthy true n b s' d = Some (tr, o, s1', d1) /\
              match o with FN => agree O s1 s1' | FR => agree X s1 s1' end.
Proof. exact functionalise_correct_lemma. Qed.

(* non-vacuity:  x = a0(a) ; if t1(x): (y = a2(x); while t3(y): (y = a4(y); z = a5(y)); x = a6(y)) ; return a7(x)
   variables a=0 x=1 y=2 z=3; y and z are local to if_body, z is local to loop_body *)
Definition ex_f : ablock :=
  ACons [0] (AAtom 0 [0] [1])
 (ACons [1] (AIf 1 [1] [2; 3]
     (ACons [1] (AAtom 2 [1] [2])
     (ACons [2] (AWhile 3 [2] [3] (ACons [2] (AAtom 4 [2] [2]) (ACons [2] (AAtom 5 [2] [3]) ANil)))
     (ACons [2] (AAtom 6 [2] [1]) ANil))) [] ANil)
 (ACons [1] (AAtom 7 [1] []) ANil)).
Example ex_f_checks : chk_block ex_f [] [] = true.
Proof. vm_compute; reflexivity. Qed.
Definition exF (l : label) (i : nat) (vs : list val) : val := 10 * l + i + fold_right plus 0 vs.
Definition st0 : store := fun x => if Nat.eqb x 0 then Some 1 else None.
Example ex_f_runs :
  (match run_block exF (fun v => negb (Nat.eqb v 0)) false 30 ex_f st0 [1; 1; 0] with Some (tr, _, s, d) => Some (tr, s 1, s 2, d) | None => None end)
  = Some ([(0, [1]); (1, [1]); (2, [1]); (3, [21]); (4, [21]); (5, [61]); (3, [61]); (6, [61]); (7, [121])], Some 121, Some 61, [])
  /\ (match run_block exF (fun v => negb (Nat.eqb v 0)) true 30 ex_f st0 [1; 1; 0] with Some (tr, _, s, d) => Some (tr, s 1, s 2, d) | None => None end)
  = Some ([(0, [1]); (1, [1]); (2, [1]); (3, [21]); (4, [21]); (5, [61]); (3, [61]); (6, [61]); (7, [121])], Some 121, None, []).
Proof. vm_compute; split; reflexivity. Qed.
(* a local that is live is caught by the conditions: make y (2) local to if_body although it is read after the if *)
Example ex_bad_rejected :
  chk_block (ACons [0] (AIf 1 [0] [2] (ACons [0] (AAtom 2 [0] [2]) ANil) [] ANil) (ACons [2] (AAtom 3 [2] []) ANil)) [] [] = false.
Proof. vm_compute; reflexivity. Qed.
(* non-vacuity with exceptions:  try: (if t1(a): (y = a2(a); raise r3(y)))  except: z = a4(y)  ;  return a5(a)
   a=0 y=1 z=2: y is assigned in the body function and read by the handler, so it must NOT be a local of if_body *)
Definition ex_t (L : list var) : ablock :=
  ACons [0] (ATry (ACons [0] (AIf 1 [0] L (ACons [0] (AAtom 2 [0] [1]) (ACons [0; 1] (ARaise 3 [1]) ANil)) [] ANil) ANil)
                  (AHCons (ACons [0; 1] (AAtom 4 [1] [2]) ANil) AHNil) ANil ANil)
 (ACons [0] (AAtom 5 [0] []) ANil).
Example ex_t_checks : chk_block (ex_t []) [] [] = true /\ chk_block (ex_t [1]) [] [] = false.
Proof. vm_compute; split; reflexivity. Qed.
Example ex_t_runs :
  (match run_block exF (fun v => negb (Nat.eqb v 0)) true 30 (ex_t []) st0 [1; 0] with Some (tr, o, s, d) => Some (tr, o, s 2, d) | None => None end)
  = Some ([(1, [1]); (2, [1]); (3, [21]); (4, [21]); (5, [1])], FN, Some 61, [])
  /\ run_block exF (fun v => negb (Nat.eqb v 0)) true 30 (ex_t [1]) st0 [1; 0] = None.   (* with y local the handler reads an unbound y *)
Proof. vm_compute; split; reflexivity. Qed.
Print Assumptions functionalise_correct.
