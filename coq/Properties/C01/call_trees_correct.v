(* C01, factor 6: malt/converters/call_trees.py -- every call of user code  f(a, *b, k=v, **m)  becomes
   ag__.converted_call(f, (a, *b), {'k': v} | dict(k=v, **m) | None, fscope)  -- preserves the order in which the callee
   expression, the arguments, the unpackings of starred / ** arguments and the keyword values are evaluated, and the
   call that is finally made (same callee value, same flattened positional arguments, same keyword arguments; a key
   given twice: TypeError instead of the call), for every expression (calls nested anywhere, calls the pass leaves
   alone), every behaviour of the opaque operations, of iteration, of mappings and of callees, any fuel -- assuming
   ag__.converted_call(f, args, kwargs) calls f with those arguments (property C13).
   Excluded by `ok`, with the witness sole_star_refuted: a converted call whose ONLY positional argument is starred and
   that also has keyword arguments, f( *x, k=v): CPython unpacks x when the call is made, after v was evaluated; the
   rewritten form unpacks it first (known finding).
   Models: CallLang.ct (tied to the real pass by structural comparison on every maximal expression of generated
   programs, with-items compared for identity), CallLang.ev (native and rewritten forms validated against CPython with
   logging iterables, mappings and callables). *)
From Coq Require Import List Arith Bool.
Import ListNotations.
Require Import MV.Calls.CallLang MV.Calls.CallProofs MV.Calls.CallCheck.

Theorem call_trees_correct : forall opres items pairs callres n e t,
  ok e = true -> ev opres items pairs callres n (ct e) t = ev opres items pairs callres n e t.
Proof. exact call_trees_correct_lemma. Qed.

(* non-vacuity:  w6()(w2(), *w3(), k0=w4(), **w5())  *)
Definition leaf (l : label) := EOp l ENil.
Definition ex_call : expr :=
  ECall CUser (leaf 6) (APos (leaf 2) (AStar (leaf 3) ANil)) (KNamed 0 (leaf 4) (KStar (leaf 5) KNil)).
Example ex_call_runs :
  ok ex_call = true /\
  ev opres_std items_std pairs_std callres_std 9 (ct ex_call) []
  = Ok 10 [EvOp 6 []; EvOp 2 []; EvOp 3 []; EvIter 3; EvOp 4 []; EvOp 5 []; EvKeys 0; EvCall 5 [11; 4; 5] [(0, 8)]].
Proof. vm_compute. split; reflexivity. Qed.

(* the excluded case is really different:  w1()( *w3(), k0=w4())  *)
Definition ex_sole : expr := ECall CUser (leaf 1) (AStar (leaf 3) ANil) (KNamed 0 (leaf 4) KNil).
Theorem sole_star_refuted :
  ok ex_sole = false /\
  ev opres_std items_std pairs_std callres_std 9 ex_sole []
  = Ok 2 [EvOp 1 []; EvOp 3 []; EvOp 4 []; EvIter 3; EvCall 6 [4; 5] [(0, 8)]] /\
  ev opres_std items_std pairs_std callres_std 9 (ct ex_sole) []
  = Ok 2 [EvOp 1 []; EvOp 3 []; EvIter 3; EvOp 4 []; EvCall 6 [4; 5] [(0, 8)]].
Proof. vm_compute. repeat split; reflexivity. Qed.
Print Assumptions call_trees_correct.
