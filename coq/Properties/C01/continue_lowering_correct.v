(* C01, factor 1b: the continue canonicalisation (continue -> `continue_ = True`, every following
   statement of every enclosing block up to the loop body moved under `if not continue_:`, flag reset
   at the start of each iteration) preserves behaviour: for every program that mentions no continue
   flag (it may contain the flags of the break pass), every terminating run, the lowered program started
   in any store agreeing on the other flags produces the same trace, outcome and decisions, and the final
   stores agree again.  raise, try/except/else/finally (handlers included: an exception raised in the body is
   dispatched to a handler chosen by the next decision) and with are covered,
   including the guard that skips the else clause of a try whose body executed the (lowered) continue;
   `clean` requires finally clauses to contain no break / continue / return.  Proving this case is what
   exposed that the first repair of the try/else defect in /repo (guard on the loop-wide flag) was itself
   wrong for a try/else nested in a finally clause (see known_findings.json, fixed list).
   Model = Passes.cont_block (the create_guard_current / create_guard_next state
   machine of continue_statements.py), tied by structural comparison with the real pass. *)
From Coq Require Import List Arith Bool.
Import ListNotations.
Require Import MV.Lower.Lang MV.Lower.LangProofs MV.Lower.Passes MV.Lower.ContinueProofs.

Theorem continue_lowering_correct : forall b s d tr o s' d',
  run_block b s d tr o s' d' -> clean_block b = true -> o <> OCont ->
  forall sl, agree s sl -> (snd (cont_block (cflag 0) 1 false false b) = true -> sl (cflag 0) = false) ->
  exists sl', run_block (fst (fst (cont_block (cflag 0) 1 false false b))) sl d tr o sl' d' /\ agree s' sl'.
Proof. exact continue_lowering_correct_lemma. Qed.

Definition ex_c : block :=
  BCons (SWhile (CUser 1) (BCons (SAtom 4) (BCons (SIf (CUser 3) (BCons SContinue BNil) BNil) (BCons (SAtom 8) (BCons (SAtom 10) BNil)))) BNil) BNil.
Example ex_c_lowered : fst (fst (cont_block (cflag 0) 1 false false ex_c)) =
  BCons (SWhile (CUser 1) (BCons (SSet 4 false) (BCons (SAtom 4) (BCons (SIf (CUser 3) (BCons (SSet 4 true) BNil) BNil)
     (BCons (SIf (CNot 4) (BCons (SAtom 8) (BCons (SAtom 10) BNil)) BNil) BNil)))) BNil) BNil.
Proof. vm_compute. reflexivity. Qed.
Example ex_c_run : exec_block 30 ex_c (fun _ => false) [1; 1; 1; 0] = ([1; 4; 3; 1; 4; 3; 8; 10; 1], ONormal, (fun _ => false), []).
Proof. vm_compute. reflexivity. Qed.
(* non-vacuity with try: while t1: try: if t2: continue; a3  else: a4  finally: a5 *)
Definition ex_t : block :=
  BCons (SWhile (CUser 1) (BCons (STry (BCons (SIf (CUser 2) (BCons SContinue BNil) BNil) (BCons (SAtom 6) BNil)) HNil
                                      (BCons (SAtom 8) BNil) (BCons (SAtom 10) BNil)) BNil) BNil) BNil.
Example ex_t_clean : clean_block ex_t = true.
Proof. vm_compute; reflexivity. Qed.
Example ex_t_run : exec_block 40 ex_t (fun _ => false) [1; 1; 1; 0; 0] = ([1; 2; 10; 1; 2; 6; 8; 10; 1], ONormal, (fun _ => false), []).
Proof. vm_compute; reflexivity. Qed.
Example ex_t_lowered_guards_else : fst (fst (cont_block (cflag 0) 1 false false ex_t)) =
  BCons (SWhile (CUser 1) (BCons (SSet 4 false) (BCons (STry
     (BCons (SIf (CUser 2) (BCons (SSet 4 true) BNil) BNil) (BCons (SIf (CNot 4) (BCons (SAtom 6) BNil) BNil) BNil)) HNil
     (BCons (SIf (CNot 4) (BCons (SAtom 8) BNil) BNil) BNil) (BCons (SAtom 10) BNil)) BNil)) BNil) BNil.
Proof. vm_compute; reflexivity. Qed.
(* non-vacuity with exceptions: while t1: try: raise r2  except: (if t3: continue); a4   finally: a5 *)
Definition ex_h : block :=
  BCons (SWhile (CUser 1) (BCons (STry (BCons (SRaise 2) BNil)
     (HCons false (BCons (SIf (CUser 3) (BCons SContinue BNil) BNil) (BCons (SAtom 8) BNil)) HNil) BNil (BCons (SAtom 10) BNil)) BNil) BNil) BNil.
Example ex_h_clean : clean_block ex_h = true.
Proof. vm_compute; reflexivity. Qed.
Example ex_h_run : exec_block 40 ex_h (fun _ => false) [1; 0; 1; 1; 0; 0; 0] = ([1; 2; 3; 10; 1; 2; 3; 8; 10; 1], ONormal, (fun _ => false), []).
Proof. vm_compute; reflexivity. Qed.
Example ex_h_lowered_run :
  let '(tr, o, s, d) := exec_block 60 (fst (fst (cont_block (cflag 0) 1 false false ex_h))) (fun _ => false) [1; 0; 1; 1; 0; 0; 0] in (tr, o, d)
  = ([1; 2; 3; 10; 1; 2; 3; 8; 10; 1], ONormal, []).
Proof. vm_compute; reflexivity. Qed.
Print Assumptions continue_lowering_correct.
