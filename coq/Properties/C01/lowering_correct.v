(* C01, factor 1 as a whole: break, continue and return canonicalisation applied in pipeline order preserve
   behaviour.  For every function body of the lowering language that satisfies the decidable side
   conditions `lowering_hyps` (no flags in the source; finally clauses without jumps; loops without else;
   the tie evaluates it on every generated program and records how many satisfy it), every terminating run
   that completes, returns or ends in an exception: the fully lowered body, started with all flags False,
   produces the same ordered trace of user atoms and tests and consumes the same decisions; it completes
   normally when the original completes or returns (the single function-level return is added by the
   frame), with do_return True exactly when the original returned, and it ends in the exception (do_return
   False) when the original does.  Exceptions: `raise` statements, handlers dispatched by decision, see
   Lower/Lang.v; finally clauses must complete normally. *)
From Coq Require Import List Arith Bool.
Import ListNotations.
Require Import MV.Lower.Lang MV.Lower.LangProofs MV.Lower.Passes MV.Lower.BreakProofs MV.Lower.ContinueProofs
               MV.Lower.ReturnProofs MV.Lower.Compose MV.Lower.Source.

Theorem lowering_correct : forall b s d tr o s' d',
  run_block b s d tr o s' d' -> lowering_hyps b = true -> o = ONormal \/ o = ORet \/ o = ORaise ->
  forall sl, (forall f, sl f = false) ->
  exists sl', run_block (lowered b) sl d tr (ro o) sl' d'
              /\ (o = ORet -> sl' rflag = true) /\ (o <> ORet -> sl' rflag = false).
Proof. exact lowering_correct_lemma. Qed.

(* The side conditions follow from a condition on the source program alone (Lower/Source.v: every intermediate
   program lies in the fragment the next pass is proved correct on): no flags, loops without else clause (the
   pipeline rejects loop-else), finally clauses without break / continue / return. *)
Theorem lowering_correct_source : forall b s d tr o s' d',
  run_block b s d tr o s' d' -> src_block b = true -> o = ONormal \/ o = ORet \/ o = ORaise ->
  forall sl, (forall f, sl f = false) ->
  exists sl', run_block (lowered b) sl d tr (ro o) sl' d'
              /\ (o = ORet -> sl' rflag = true) /\ (o <> ORet -> sl' rflag = false).
Proof. exact lowering_correct_source_lemma. Qed.

(* non-vacuity: while t1: try: if t2: break; if t3: continue; if t4: return r5; a6  else: a7  finally: a8 ; a9 *)
Definition ex_l : block :=
  BCons (SWhile (CUser 1) (BCons (STry
     (BCons (SIf (CUser 2) (BCons SBreak BNil) BNil) (BCons (SIf (CUser 3) (BCons SContinue BNil) BNil)
        (BCons (SIf (CUser 4) (BCons (SReturn 10) BNil) BNil) (BCons (SAtom 12) BNil)))) HNil
     (BCons (SAtom 14) BNil) (BCons (SAtom 16) BNil)) BNil) BNil) (BCons (SAtom 18) BNil).
Example ex_l_hyps : lowering_hyps ex_l = true.
Proof. vm_compute; reflexivity. Qed.
Example ex_l_runs :
  exec_block 80 ex_l (fun _ => false) [1; 0; 1; 1; 0; 0; 0; 1; 0; 0; 1] = ([1; 2; 3; 16; 1; 2; 3; 4; 12; 14; 16; 1; 2; 3; 4; 10; 16], ORet, (fun _ => false), [])
  /\ (let '(tr, o, s, d) := exec_block 200 (lowered ex_l) (fun _ => false) [1; 0; 1; 1; 0; 0; 0; 1; 0; 0; 1] in (tr, o, s rflag, d))
     = ([1; 2; 3; 16; 1; 2; 3; 4; 12; 14; 16; 1; 2; 3; 4; 10; 16], ONormal, true, []).
Proof. vm_compute; split; reflexivity. Qed.
(* non-vacuity with exceptions: while t1: try: (if t2: break); raise r3  except: (if t4: continue); (if t5: return r6); a7
                                        finally: a8 ;  a9 *)
Definition ex_le : block :=
  BCons (SWhile (CUser 1) (BCons (STry
     (BCons (SIf (CUser 2) (BCons SBreak BNil) BNil) (BCons (SRaise 3) BNil))
     (HCons false (BCons (SIf (CUser 4) (BCons SContinue BNil) BNil) (BCons (SIf (CUser 5) (BCons (SReturn 12) BNil) BNil) (BCons (SAtom 14) BNil))) HNil)
     BNil (BCons (SAtom 16) BNil)) BNil) BNil) (BCons (SAtom 18) BNil).
Example ex_le_hyps : lowering_hyps ex_le = true.
Proof. vm_compute; reflexivity. Qed.
Example ex_le_runs :
  exec_block 80 ex_le (fun _ => false) [1; 0; 0; 1; 1; 0; 0; 0; 0; 1; 0; 0; 0; 1] = ([1; 2; 3; 4; 16; 1; 2; 3; 4; 5; 14; 16; 1; 2; 3; 4; 5; 12; 16], ORet, (fun _ => false), [])
  /\ (let '(tr, o, s, d) := exec_block 200 (lowered ex_le) (fun _ => false) [1; 0; 0; 1; 1; 0; 0; 0; 0; 1; 0; 0; 0; 1] in (tr, o, s rflag, d))
     = ([1; 2; 3; 4; 16; 1; 2; 3; 4; 5; 14; 16; 1; 2; 3; 4; 5; 12; 16], ONormal, true, []).
Proof. vm_compute; split; reflexivity. Qed.
(* the exception is taken by no handler (decision 1): it leaves the loop and the function, after the finally clause *)
Example ex_le_uncaught :
  exec_block 80 ex_le (fun _ => false) [1; 0; 1] = ([1; 2; 3; 16], ORaise, (fun _ => false), [])
  /\ (let '(tr, o, s, d) := exec_block 200 (lowered ex_le) (fun _ => false) [1; 0; 1] in (tr, o, s rflag, d)) = ([1; 2; 3; 16], ORaise, false, []).
Proof. vm_compute; split; reflexivity. Qed.
Example ex_l_src : src_block ex_l = true /\ src_block ex_le = true.
Proof. vm_compute; split; reflexivity. Qed.
Print Assumptions lowering_correct.
Print Assumptions lowering_correct_source.
