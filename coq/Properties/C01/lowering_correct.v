(* C01, factor 1 as a whole: break, continue and return canonicalisation applied in pipeline order preserve
   behaviour.  For every function body of the lowering language that satisfies the decidable side
   conditions `lowering_hyps` (no flags in the source; finally clauses without jumps; loops without else;
   the tie evaluates it on every generated program and records how many satisfy it), every terminating run
   that completes or returns: the fully lowered body, started with all flags False, produces the same
   ordered trace of user atoms and tests and consumes the same decisions, always completes normally (the
   single function-level return is added by the frame), and do_return is True exactly when the original
   returned. *)
From Coq Require Import List Arith Bool.
Import ListNotations.
Require Import MV.Lower.Lang MV.Lower.LangProofs MV.Lower.Passes MV.Lower.BreakProofs MV.Lower.ContinueProofs
               MV.Lower.ReturnProofs MV.Lower.Compose.

Theorem lowering_correct : forall b s d tr o s' d',
  run_block b s d tr o s' d' -> lowering_hyps b = true -> o = ONormal \/ o = ORet ->
  forall sl, (forall f, sl f = false) ->
  exists sl', run_block (lowered b) sl d tr ONormal sl' d'
              /\ (o = ORet -> sl' rflag = true) /\ (o = ONormal -> sl' rflag = false).
Proof. exact lowering_correct_lemma. Qed.

(* non-vacuity: while t1: try: if t2: break; if t3: continue; if t4: return r5; a6  else: a7  finally: a8 ; a9 *)
Definition ex_l : block :=
  BCons (SWhile (CUser 1) (BCons (STry
     (BCons (SIf (CUser 2) (BCons SBreak BNil) BNil) (BCons (SIf (CUser 3) (BCons SContinue BNil) BNil)
        (BCons (SIf (CUser 4) (BCons (SReturn 5) BNil) BNil) (BCons (SAtom 6) BNil)))) HNil
     (BCons (SAtom 7) BNil) (BCons (SAtom 8) BNil)) BNil) BNil) (BCons (SAtom 9) BNil).
Example ex_l_hyps : lowering_hyps ex_l = true.
Proof. vm_compute; reflexivity. Qed.
Example ex_l_runs :
  exec_block 80 ex_l (fun _ => false) [1; 0; 1; 1; 0; 0; 0; 1; 0; 0; 1] = ([1; 2; 3; 8; 1; 2; 3; 4; 6; 7; 8; 1; 2; 3; 4; 5; 8], ORet, (fun _ => false), [])
  /\ (let '(tr, o, s, d) := exec_block 200 (lowered ex_l) (fun _ => false) [1; 0; 1; 1; 0; 0; 0; 1; 0; 0; 1] in (tr, o, s rflag, d))
     = ([1; 2; 3; 8; 1; 2; 3; 4; 6; 7; 8; 1; 2; 3; 4; 5; 8], ONormal, true, []).
Proof. vm_compute; split; reflexivity. Qed.
Print Assumptions lowering_correct.
