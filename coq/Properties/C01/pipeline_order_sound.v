(* C01 (factor 4 of DESIGN.md 4/C01): the pass list extracted from PyToPy.transform_ast on this run
   satisfies every ordering constraint the lowering passes rely on, and none of the core passes is
   behind a feature gate. *)
From Coq Require Import List String Bool Arith.
Import ListNotations.
Require Import MV.Route.Order MV.Generated.C01_pipeline_gen.
Local Open Scope string_scope.

Theorem pipeline_order_sound :
  (forall a b, In (a, b) constraints ->
     exists i j, index_of a pipeline_gen = Some i /\ index_of b pipeline_gen = Some j /\ i < j)
  /\ (forall a, In a core_passes -> ungated pipeline_gen a = true).
Proof.
  assert (H : order_ok pipeline_gen = true) by (vm_compute; reflexivity).
  split; [intros a b; apply order_ok_before, H | intros a; apply order_ok_ungated, H].
Qed.
Print Assumptions pipeline_order_sound.
