(* C01, factor 1c: the return canonicalisation -- ConditionalReturnRewriter (statements following an
   `if` one of whose branches definitely returns are moved into the other branch) followed by
   ReturnStatementsTransformer (return -> `do_return = True; retval_ = value`, every following
   statement of every enclosing block moved under `if not do_return:`, loop tests get
   `not do_return and ...`, the else clause of a try whose body returned is skipped) -- preserves
   behaviour: for every program that does not mention the do_return flag, every terminating run, the
   lowered program started in a store agreeing on the other flags with do_return = False (what the
   function-level frame emitted by the pass establishes) produces the same trace and decisions; it
   completes normally exactly when the original completes normally or returns, and do_return is True
   at the end exactly when the original returned; a run that ends in an exception ends in the same
   exception at the same point with do_return False.  raise, return values and user statements whose
   evaluation raises (odd labels), try/except/else/finally (handlers included, bare `except:` first or
   dispatch by decision) and with are covered -- in particular the try/except wrapper the pass puts around
   every lowered return (`except: do_return = False; raise`) is what makes the raising-value case hold; loops without else clause (the pipeline rejects loop-else), finally clauses without jumps.
   Models = Passes.crr_block, Passes.ret_block, tied to return_statements.py by structural comparison. *)
From Coq Require Import List Arith Bool.
Import ListNotations.
Require Import MV.Lower.Lang MV.Lower.LangProofs MV.Lower.Passes MV.Lower.ContinueProofs MV.Lower.ReturnProofs.

Theorem return_lowering_correct : forall b s d tr o s' d',
  run_block b s d tr o s' d' -> rclean_block (fst (crr_block b)) = true ->
  forall sl, ragree s sl -> sl rflag = false ->
  exists sl', run_block (fst (return_pass b)) sl d tr (ro o) sl' d' /\ ragree s' sl'
              /\ (o = ORet -> sl' rflag = true /\ snd (return_pass b) = true)
              /\ (o <> ORet -> sl' rflag = false).
Proof. exact return_lowering_correct_lemma. Qed.

(* the rewriter alone changes nothing observable, flags included *)
Theorem conditional_return_rewriter_correct : forall b s d tr o s' d',
  run_block b s d tr o s' d' -> run_block (fst (crr_block b)) s d tr o s' d'.
Proof. intros b s d tr o s' d' R. exact (proj1 (proj2 crr_correct_all _ _ _ _ _ _ _ R)). Qed.

(* non-vacuity: if t1: (try: if t2: return r3; a4  else: a5  finally: a6)  a7; return r8 *)
Definition ex_r : block :=
  BCons (SIf (CUser 1) (BCons (STry (BCons (SIf (CUser 2) (BCons (SReturn 6) BNil) BNil) (BCons (SAtom 8) BNil)) HNil
                                   (BCons (SAtom 10) BNil) (BCons (SAtom 12) BNil)) BNil) BNil)
        (BCons (SAtom 14) (BCons (SReturn 16) BNil)).
Example ex_r_clean : rclean_block (fst (crr_block ex_r)) = true.
Proof. vm_compute; reflexivity. Qed.
Example ex_r_run : exec_block 40 ex_r (fun _ => false) [1; 1] = ([1; 2; 6; 12], ORet, (fun _ => false), []).
Proof. vm_compute; reflexivity. Qed.
Example ex_r_lowered_run :
  let '(tr, o, s, d) := exec_block 60 (fst (return_pass ex_r)) (fun _ => false) [1; 1] in (tr, o, s rflag, d) = ([1; 2; 6; 12], ONormal, true, []).
Proof. vm_compute; reflexivity. Qed.
(* non-vacuity with exceptions: try: raise r1  except: (if t2: return r3); a4   ;  a5 *)
Definition ex_x : block :=
  BCons (STry (BCons (SRaise 1) BNil) (HCons false (BCons (SIf (CUser 2) (BCons (SReturn 6) BNil) BNil) (BCons (SAtom 8) BNil)) HNil) BNil BNil)
        (BCons (SAtom 10) BNil).
Example ex_x_clean : rclean_block (fst (crr_block ex_x)) = true.
Proof. vm_compute; reflexivity. Qed.
Example ex_x_run : exec_block 40 ex_x (fun _ => false) [0; 1] = ([1; 2; 6], ORet, (fun _ => false), []).
Proof. vm_compute; reflexivity. Qed.
Example ex_x_lowered_run :
  let '(tr, o, s, d) := exec_block 60 (fst (return_pass ex_x)) (fun _ => false) [0; 1] in (tr, o, s rflag, d) = ([1; 2; 6], ONormal, true, []).
Proof. vm_compute; reflexivity. Qed.
(* ... and an exception no handler takes (decision 1 = past the only handler) leaves the lowered function too *)
Example ex_x_uncaught :
  let '(tr, o, s, d) := exec_block 60 (fst (return_pass ex_x)) (fun _ => false) [1] in (tr, o, s rflag, d) = ([1], ORaise, false, []).
Proof. vm_compute; reflexivity. Qed.
(* a return value whose evaluation raises (odd label, decision 1): try: return r7  except: a8 ;  a10 -- the wrapper the
   pass puts around the lowered return resets do_return, so the statements after the try still run *)
Definition ex_v : block :=
  BCons (STry (BCons (SReturn 7) BNil) (HCons true (BCons (SAtom 8) BNil) HNil) BNil BNil) (BCons (SAtom 10) BNil).
Example ex_v_clean : rclean_block (fst (crr_block ex_v)) = true.
Proof. vm_compute; reflexivity. Qed.
Example ex_v_run : exec_block 40 ex_v (fun _ => false) [1] = ([7; 8; 10], ONormal, (fun _ => false), [])
                /\ exec_block 40 ex_v (fun _ => false) [0] = ([7], ORet, (fun _ => false), []).
Proof. vm_compute; split; reflexivity. Qed.
Example ex_v_lowered_run :
  (let '(tr, o, s, d) := exec_block 60 (fst (return_pass ex_v)) (fun _ => false) [1] in (tr, o, s rflag, d)) = ([7; 8; 10], ONormal, false, [])
  /\ (let '(tr, o, s, d) := exec_block 60 (fst (return_pass ex_v)) (fun _ => false) [0] in (tr, o, s rflag, d)) = ([7], ONormal, true, []).
Proof. vm_compute; split; reflexivity. Qed.
Print Assumptions return_lowering_correct.
Print Assumptions conditional_return_rewriter_correct.
