(* C04: the observation used by the correspondence and by the oracle (list of kinds of
   native constructs outside exempt positions) is empty exactly when the predicate of the
   theorems holds. *)
From Coq Require Import List String Bool.
Import ListNotations.
Require Import MV.Route.Traversal MV.Route.TraversalProofs MV.Route.Pipeline MV.Generated.C04_gen.
Local Open Scope string_scope.

Theorem survivors_spec : forall G t, survivors G t = [] <-> no_native_outside_exemptions G t.
Proof. exact survivors_clean. Qed.
Print Assumptions survivors_spec.
