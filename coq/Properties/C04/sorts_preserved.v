(* C04: a pass whose expression-level handlers introduce no statement (and that moves nothing into a field no
   traversal enters) keeps the two
   well-formedness invariants the discipline relies on ("no statement below an
   expression", "only fields the grammar knows"). *)
From Coq Require Import List String Bool.
Import ListNotations.
Require Import MV.Route.Traversal MV.Route.TraversalProofs MV.Route.Pipeline MV.Generated.C04_gen.
Local Open Scope string_scope.

Theorem sorts_preserved : forall G P, preserves_sorts G P = true ->
  forall t, wf G t = true -> kf G t = true -> wf G (xform G P t) = true /\ kf G (xform G P t) = true.
Proof. intros G P H t Hw Hk. split; [apply xform_wf; auto | apply xform_kf; auto; eapply preserves_hides; eauto]. Qed.
Print Assumptions sorts_preserved.
