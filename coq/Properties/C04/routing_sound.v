(* C04: for ANY grammar/spec G and ANY pipeline of pass tables Ps that satisfies the
   decidable discipline table_ok, every well-sorted program inside the guards of the
   waivers is converted to a tree without native overloadable constructs outside the
   exempt positions.  Unbounded in program size/depth: structural induction. *)
From Coq Require Import List String Bool.
Import ListNotations.
Require Import MV.Route.Traversal MV.Route.TraversalProofs MV.Route.Pipeline MV.Generated.C04_gen.
Local Open Scope string_scope.

Theorem routing_sound : forall G Ps, table_ok G Ps = true ->
  forall p, wf G p = true -> kf G p = true -> guard G Ps p = true ->
  no_native_outside_exemptions G (run_pipeline G Ps p).
Proof. exact table_sound. Qed.

(* non-vacuity: a table that satisfies the discipline and really rewrites, on a program
   that contains the construct *)
Definition ex_G := mkGrammar ["FunctionDef"; "If"] [("FunctionDef", "body"); ("If", "body")]
                              [("FunctionDef", ["body"]); ("If", ["test"; "body"])] [] ["If"].
Definition ex_Ps : list wpass := [([("If", mkAction true [] Always [] [])], [])].
Definition ex_p := Node "FunctionDef" [("body", Node "If" [("test", Node "Name" []); ("body", Node "If" [])])].
Example routing_sound_nonvacuous :
  table_ok ex_G ex_Ps = true /\ survivors ex_G ex_p = ["If"; "If"] /\ survivors ex_G (run_pipeline ex_G ex_Ps ex_p) = [].
Proof. vm_compute. repeat split; reflexivity. Qed.
(* and a table that skips a field is rejected *)
Example discipline_rejects_skipped_field :
  table_ok ex_G [([("If", mkAction false ["test"] Always [] [])], [])] = false.
Proof. vm_compute. reflexivity. Qed.
(* and so is a table with a method that moves children into a field no traversal enters (a tuple where the
   grammar has a list): in the model the later pass does not reach the hidden call, which survives *)
Definition ex_G2 := mkGrammar ["FunctionDef"; "Assign"] [("FunctionDef", "body")]
                               [("FunctionDef", ["body"]); ("Assign", ["targets"; "value"]); ("Call", ["func"; "args"])] [] ["Call"].
Definition ex_hiding : list wpass :=
  [([("Assign", mkAction true [] Never [] ["targets"])], []); ([("Call", mkAction true [] Always [] [])], [])].
Definition ex_p2 := Node "FunctionDef" [("body", Node "Assign" [("targets", Node "Subscript" [("slice", Node "Call" [])]);
                                                                  ("value", Node "Call" [])])].
Example discipline_rejects_hidden_field :
  table_ok ex_G2 ex_hiding = false /\ wf ex_G2 ex_p2 = true /\ kf ex_G2 ex_p2 = true /\
  survivors ex_G2 (run_pipeline ex_G2 ex_hiding ex_p2) = ["Call"].
Proof. vm_compute. repeat split; reflexivity. Qed.
Print Assumptions routing_sound.
Print Assumptions routing_sound_nonvacuous.
