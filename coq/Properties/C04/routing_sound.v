(* C04: for ANY grammar/spec G and ANY pipeline of pass tables Ps that satisfies the
   decidable discipline table_ok, every well-sorted program inside the guards of the
   waivers is converted to a tree without native overloadable constructs outside the
   exempt positions.  Unbounded in program size/depth: structural induction. *)
From Coq Require Import List String Bool.
Import ListNotations.
Require Import MV.Route.Traversal MV.Route.TraversalProofs MV.Route.Pipeline MV.Generated.C04_gen.
Local Open Scope string_scope.

Theorem routing_sound : forall G Ps, table_ok G Ps = true ->
  forall p, wf G p = true -> kf G p = true -> guard G Ps p = true ->
  no_native_outside_exemptions G (run_pipeline G Ps p).
Proof. exact table_sound. Qed.

(* non-vacuity: a table that satisfies the discipline and really rewrites, on a program
   that contains the construct *)
Definition ex_G := mkGrammar ["FunctionDef"; "If"] [("FunctionDef", "body"); ("If", "body")]
                              [("FunctionDef", ["body"]); ("If", ["test"; "body"])] [] ["If"].
Definition ex_Ps : list wpass := [([("If", mkAction true [] Always [])], [])].
Definition ex_p := Node "FunctionDef" [("body", Node "If" [("test", Node "Name" []); ("body", Node "If" [])])].
Example routing_sound_nonvacuous :
  table_ok ex_G ex_Ps = true /\ survivors ex_G ex_p = ["If"; "If"] /\ survivors ex_G (run_pipeline ex_G ex_Ps ex_p) = [].
Proof. vm_compute. repeat split; reflexivity. Qed.
(* and a table that skips a field is rejected *)
Example discipline_rejects_skipped_field :
  table_ok ex_G [([("If", mkAction false ["test"] Always [])], [])] = false.
Proof. vm_compute. reflexivity. Qed.
Print Assumptions routing_sound.
Print Assumptions routing_sound_nonvacuous.
