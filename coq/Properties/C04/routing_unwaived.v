(* C04: without waivers the guard disappears: the full statement of the design. *)
From Coq Require Import List String Bool.
Import ListNotations.
Require Import MV.Route.Traversal MV.Route.TraversalProofs MV.Route.Pipeline MV.Generated.C04_gen.
Local Open Scope string_scope.

Theorem routing_unwaived : forall G Ps, unwaived Ps = true -> table_ok G Ps = true ->
  forall p, wf G p = true -> kf G p = true ->
  no_native_outside_exemptions G (run_pipeline G Ps p).
Proof. exact table_sound_unwaived. Qed.
Print Assumptions routing_unwaived.
