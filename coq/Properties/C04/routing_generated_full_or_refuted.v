(* C04, per-run obligation: on the tables generated from the CURRENT source, either the
   discipline holds with NO waiver -- then every well-sorted program is fully routed, for
   every option set -- or the faithful model exhibits the witness of the known finding
   C04-ifexp-children-not-visited: `1 if a else (2 if b else 3)` keeps a native
   conditional expression.  (Before the fix of visit_IfExp the right disjunct is the one
   proved; after it the left one.) *)
From Coq Require Import List String Bool.
Import ListNotations.
Require Import MV.Route.Traversal MV.Route.TraversalProofs MV.Route.Pipeline MV.Generated.C04_gen.
Local Open Scope string_scope.

Theorem routing_generated_full_or_refuted :
  (forall feats, In feats (all_feature_sets gen_features) ->
     let G := grammar_for gen_S gen_stmt_fields gen_fields feats in
     forall p, wf G p = true -> kf G p = true ->
     no_native_outside_exemptions G (run_pipeline G (resolve feats [] gen_passes) p))
  \/
  (let G := grammar_for gen_S gen_stmt_fields gen_fields [] in
   wf G ifexp_witness = true /\ kf G ifexp_witness = true /\
   survivors G (run_pipeline G (resolve [] [] gen_passes) ifexp_witness) = ["IfExp"]).
Proof.
  destruct (tables_ok gen_S gen_stmt_fields gen_fields gen_features [] gen_passes) eqn:E.
  - left. intros feats Hin G p Hwf Hkf.
    unfold tables_ok in E. rewrite forallb_forall in E. specialize (E feats Hin).
    apply table_sound; auto. apply guard_unwaived.
    unfold resolve, unwaived. rewrite forallb_forall. intros pw Hpw.
    apply in_map_iff in Hpw. destruct Hpw as [gp [Hgp _]]. subst pw. reflexivity.
  - right. first [ exfalso; vm_compute in E; discriminate E
                 | vm_compute; repeat split; reflexivity ].
Qed.
Print Assumptions routing_generated_full_or_refuted.
