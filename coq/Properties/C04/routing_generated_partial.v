(* C04, per-run obligation: the tables generated from the CURRENT source satisfy the
   discipline for every option set, modulo the waivers of the known findings; hence every
   program inside the guards is fully routed.
   partial: (1) guarded by known_waivers (see routing_generated_full_or_refuted);
   (2) the statement is about the traversal model (replaced nodes keep their children,
   templates are abstracted to the kinds they introduce) -- tied to the implementation by
   the probing of every table entry and by the survivor correspondence, not by proof. *)
From Coq Require Import List String Bool.
Import ListNotations.
Require Import MV.Route.Traversal MV.Route.TraversalProofs MV.Route.Pipeline MV.Generated.C04_gen.
Local Open Scope string_scope.

Lemma tables_ok_generated :
  tables_ok gen_S gen_stmt_fields gen_fields gen_features known_waivers gen_passes = true.
Proof. vm_compute. reflexivity. Qed.

Theorem routing_generated_partial : forall feats, In feats (all_feature_sets gen_features) ->
  let G := grammar_for gen_S gen_stmt_fields gen_fields feats in
  let Ps := resolve feats known_waivers gen_passes in
  forall p, wf G p = true -> kf G p = true -> guard G Ps p = true ->
  no_native_outside_exemptions G (run_pipeline G Ps p).
Proof.
  intros feats Hin G Ps p Hwf Hkf Hg. apply table_sound; auto.
  pose proof tables_ok_generated as H. unfold tables_ok in H.
  rewrite forallb_forall in H. apply (H feats Hin).
Qed.
Print Assumptions routing_generated_partial.
