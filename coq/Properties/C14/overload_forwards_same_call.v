(* C14: for every supported builtin (SUPPORTED_BUILTINS of the current source) that passes the
   bounded symbolic check `conforms`, for every call its documented signature accepts -- any
   number of positional arguments, every optional parameter present or absent, passed
   positionally or by its documented keyword -- and for ALL argument values, with registries that
   hold nothing for these values: the overload binds, and performs exactly one call, of the same
   builtin, whose binding under the documented signature is identical (parameters the builtin
   only truth-tests compared by truth value; if that truth test raises, the overload raises the
   same exception).  Hence equal value, same laziness, same output, same exception: it is the
   builtin's own.  Builtins that do not pass `conforms` are the subject of
   nonconforming_refuted.v.
   Keyword arguments are taken in the order of the documented signature; other orders are
   covered by kwarg_order_irrelevant.v. *)
From Coq Require Import List String Bool.
Import ListNotations.
Require Import MV.Builtins.Binding MV.Builtins.Overload MV.Builtins.DocSigs MV.Builtins.BuiltinsCheck
  MV.Builtins.OverloadProofs MV.Generated.C14_gen MV.Builtins.ForwardingProofs.

Theorem overload_forwards_same_call :
  forall b d, In b (supported table_gen) -> doc_of b = Some d -> conforms table_gen b = true ->
  forall (V : Type) (truthy : V -> option bool) (r : string -> V -> option nat),
    (forall n v, r n v = None) ->
  forall (args : list V) (kv : string -> option V),
    good truthy (Some r) table_gen b d args (canon (kw_names (dsig d)) kv).
Proof.
  intros b d I D C V truthy r E args kv. apply good_empty; [exact E|].
  exact (forwards_conforming b d I D C V truthy args kv).
Qed.
Print Assumptions overload_forwards_same_call.
