(* C14: `_find_originating_frame` returns a frame whose locals hold the scope object itself; the
   innermost search returns the nearest such frame, the outermost search the farthest; it fails
   (AssertionError) only if no frame on the stack holds the scope object. *)
From Coq Require Import List String Bool Arith.
Import ListNotations.
Require Import MV.Builtins.Frames MV.Builtins.FramesProofs.

Theorem frame_lookup : forall name scope inner stack k,
  find_frame name scope inner stack = Some k ->
  exists f, nth_error stack k = Some f /\ holds name scope f = true
    /\ (inner = true -> forall j g, j < k -> nth_error stack j = Some g -> holds name scope g = false)
    /\ (inner = false -> forall j g, k < j -> nth_error stack j = Some g -> holds name scope g = false).
Proof. exact find_frame_spec. Qed.
Theorem frame_lookup_total : forall name scope inner stack f,
  In f stack -> holds name scope f = true -> find_frame name scope inner stack <> None.
Proof. exact find_frame_total. Qed.
Print Assumptions frame_lookup.
Print Assumptions frame_lookup_total.
