(* C14, known finding C14-ctx-builtin-in-functionalised-body: inside a functionalised loop/branch
   body the innermost search stops at the generated body function's frame.  That frame binds the
   scope object (the body passes `fscope` to converted_call, so it is a free variable of the body)
   but only the names the body itself references, so a variable `a` of the user function that is
   mentioned only inside the eval string / read through locals() is not found, although the user
   function's frame -- which the outermost search would return -- has it.
   Witness: def f(n): a = 5; r = 0; for i in range(n): r = r + eval('a')   (stack, innermost first:
   eval_in_original_context, converted_call, loop_body, for_stmt, f). *)
From Coq Require Import List String Bool Arith.
Import ListNotations.
Require Import MV.Builtins.Frames.
Local Open Scope string_scope.

Theorem eval_sees_function_locals_refuted :
  exists (stack : list frame) (F : frame),
    nth_error stack 4 = Some F /\ flookup "a" F = Some 5 /\
    ctx_lookup "fscope" 1 true stack "a" = None /\
    ctx_lookup "fscope" 1 false stack "a" = Some 5.
Proof.
  exists [ [("f", 20); ("args", 21); ("caller_fn_scope", 1)];
           [("f", 20); ("args", 21); ("kwargs", 0); ("caller_fn_scope", 1)];
           [("itr", 30); ("i", 30); ("fscope", 1); ("r", 7)];
           [("iter_", 31); ("body", 32)];
           [("n", 3); ("fscope", 1); ("a", 5); ("r", 7); ("i", 30)] ],
         [("n", 3); ("fscope", 1); ("a", 5); ("r", 7); ("i", 30)].
  vm_compute. repeat split; reflexivity.
Qed.
Print Assumptions eval_sees_function_locals_refuted.
