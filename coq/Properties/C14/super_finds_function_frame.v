(* C14: zero-argument super().  The current source searches the outermost frame for super
   (generated flag), and the outermost search returns the converted user function's own frame F
   -- whose locals carry __class__ and the first argument -- however many generated body functions
   of loops and branches (frames that may or may not hold the scope object) lie between the call and
   F, provided no caller of F holds this activation's scope object (it is created inside F). *)
From Coq Require Import List String Bool Arith.
Import ListNotations.
Require Import MV.Builtins.Overload MV.Builtins.Frames MV.Builtins.FramesProofs MV.Generated.C14_gen.
Local Open Scope string_scope.

Theorem super_finds_function_frame :
  assoc "super" ctx_gen = Some false /\
  forall name scope inner_frames F outer,
    holds name scope F = true -> none_hold name scope outer ->
    find_frame name scope false (inner_frames ++ F :: outer) = Some (List.length inner_frames).
Proof. split; [vm_compute; reflexivity | exact outermost_finds_function_frame]. Qed.
Print Assumptions super_finds_function_frame.
