(* C14: a substituted builtin reached through functools.partial.  The layers from which the
   functools.partial branch of converted_call (current source, generated) builds the keyword dict,
   and the order in which it concatenates the positionals, give exactly Python's rule for partial
   objects: bound positionals first, then the call's; bound keywords, overridden by the call's
   keywords (call site wins), in dict order -- for all argument values and keyword names.  The
   merged call then enters the builtin branch, to which overload_forwards_same_call applies. *)
From Coq Require Import List String Bool.
Import ListNotations.
Require Import MV.Builtins.Binding MV.Builtins.Overload MV.Builtins.Partial MV.Builtins.PartialProofs MV.Generated.C14_gen.

Theorem partial_call_site_wins :
  layers_ok partial_kw_layers_gen partial_arg_order_gen = true /\
  forall (A : Type) (pargs args : list A) (pkws kws : list (string * A)),
    nodup_keys (map fst pkws) = true -> nodup_keys (map fst kws) = true ->
    (merge_args partial_arg_order_gen pargs args, merge_kws partial_kw_layers_gen pkws kws)
      = partial_spec pargs pkws args kws
    /\ forall x, lookup x (merge_kws partial_kw_layers_gen pkws kws)
                 = match lookup x kws with Some v => Some v | None => lookup x pkws end.
Proof.
  assert (H : layers_ok partial_kw_layers_gen partial_arg_order_gen = true) by (vm_compute; reflexivity).
  split; [exact H|]. intros A pargs args pkws kws N1 N2.
  pose proof (merge_is_partial_spec _ _ H pargs args pkws kws N1) as E. split; [exact E|].
  intro x. injection E as _ E2. rewrite E2. exact (partial_spec_call_site_wins pargs args pkws kws x N2).
Qed.
Print Assumptions partial_call_site_wins.
