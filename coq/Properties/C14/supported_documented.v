(* C14: per-run side conditions on the tables generated from py_builtins.py: every member of
   SUPPORTED_BUILTINS has a documented signature in DocSigs.v, an entry in BUILTIN_FUNCTIONS_MAP
   under its __name__ (overload_of would raise KeyError otherwise) and that entry is a translated
   function; every documented builtin of the property is supported. *)
From Coq Require Import List String Bool.
Import ListNotations.
Require Import MV.Builtins.Binding MV.Builtins.Overload MV.Builtins.DocSigs MV.Builtins.BuiltinsCheck
  MV.Generated.C14_gen.

Definition table_ok (T : table) : bool :=
  forallb (fun b => match doc_of b, assoc b (fmap T) with
                    | Some _, Some f => match assoc f (fns T) with Some _ => true | None => false end
                    | _, _ => false
                    end) (supported T)
  && forallb (fun b => mem b (supported T)) documented
  && nodup_keys (supported T).

Theorem supported_documented : table_ok table_gen = true.
Proof. vm_compute; reflexivity. Qed.
Theorem supported_documented_all : forall b, In b (supported table_gen) ->
  exists d f fd, doc_of b = Some d /\ assoc b (fmap table_gen) = Some f /\ assoc f (fns table_gen) = Some fd.
Proof.
  intros b I. pose proof supported_documented as H. unfold table_ok in H.
  apply andb_prop in H; destruct H as [H _]. apply andb_prop in H; destruct H as [H _].
  rewrite forallb_forall in H. specialize (H b I).
  destruct (doc_of b) as [d|]; [|discriminate]. destruct (assoc b (fmap table_gen)) as [f|]; [|discriminate].
  destruct (assoc f (fns table_gen)) as [fd|] eqn:E; [|discriminate]. exists d, f, fd. auto.
Qed.
Print Assumptions supported_documented.
Print Assumptions supported_documented_all.
