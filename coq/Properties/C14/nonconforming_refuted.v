(* C14: a supported builtin that fails the bounded symbolic check `conforms` (so that
   overload_forwards_same_call does not speak about it) has a concrete refuting call: a call shape
   accepted by its documented signature on which the overload -- as the model generated from the
   current source runs it -- does not perform the same call of the builtin.  On the unchanged tree
   this is `enumerate(iterable=...)` (known finding / fix C14-enumerate-keyword); the driver turns
   every such shape into a call of the real overload. *)
From Coq Require Import List String Bool.
Import ListNotations.
Require Import MV.Builtins.Binding MV.Builtins.Overload MV.Builtins.DocSigs MV.Builtins.BuiltinsCheck
  MV.Builtins.OverloadProofs MV.Generated.C14_gen.
Local Open Scope string_scope.

Theorem nonconforming_refuted :
  forall b d, In b (supported table_gen) -> doc_of b = Some d -> conforms table_gen b = false ->
  exists args kws, In (args, kws) (shapes d) /\ ~ good ttruth None table_gen b d args kws.
Proof. intros b d _ D C. exact (nonconforming_witness table_gen b d D C). Qed.

(* non-vacuity, on the source as it was when this file was written (pinned copy of enumerate_) *)
Definition pinned_enumerate : table := mktable ["enumerate"] [("enumerate", "enumerate_")]
  [("_py_enumerate", mkfn (mksig [mkparam "s" PosOrKw Required; mkparam "start" PosOrKw (Default CInt0)] None None)
      (BReturn (TBuiltin "enumerate") [CPos (AParam "s"); CPos (AParam "start")]));
   ("enumerate_", mkfn (mksig [mkparam "s" PosOrKw Required; mkparam "start" PosOrKw (Default CInt0)] None None)
      (BDispatch "enumerate_registry" "s" [CPos (AParam "s"); CPos (AParam "start")]
         (BReturn (THelper "_py_enumerate") [CPos (AParam "s"); CPos (AParam "start")])))].
Example enumerate_keyword_refuted :
  conforms pinned_enumerate "enumerate" = false
  /\ run_overload ttruth None pinned_enumerate "enumerate" [] [("iterable", VV 301)] = RExc ETypeError.
Proof. vm_compute; split; reflexivity. Qed.
Print Assumptions nonconforming_refuted.
Print Assumptions enumerate_keyword_refuted.
