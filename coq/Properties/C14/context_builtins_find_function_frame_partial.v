(* C14: eval / locals / globals / super, whichever search flag the current source gives them
   (generated), called DIRECTLY in the body of the converted function F (only malt's own frames,
   which never bind the scope object, lie between the call and F): the frame used is F.
   PARTIAL: for a call inside a functionalised loop/branch body this holds for the outermost search
   only (super_finds_function_frame); for the innermost search it is false, see
   eval_sees_function_locals_refuted. Every builtin converted_call routes to a context function is
   covered (generated list). *)
From Coq Require Import List String Bool Arith.
Import ListNotations.
Require Import MV.Builtins.Binding MV.Builtins.Overload MV.Builtins.Frames MV.Builtins.FramesProofs MV.Generated.C14_gen.
Local Open Scope string_scope.

Theorem context_builtins_find_function_frame_partial :
  forallb (fun b => mem b (map fst ctx_gen)) routed_gen = true /\
  forall b flag, In (b, flag) ctx_gen ->
  forall name scope helpers F outer,
    none_hold name scope helpers -> holds name scope F = true -> none_hold name scope outer ->
    find_frame name scope flag (helpers ++ F :: outer) = Some (List.length helpers).
Proof.
  split; [vm_compute; reflexivity|].
  intros b [|] _ name scope helpers F outer N HF NO.
  - apply innermost_finds_function_frame; assumption.
  - apply outermost_finds_function_frame; assumption.
Qed.
Print Assumptions context_builtins_find_function_frame_partial.
