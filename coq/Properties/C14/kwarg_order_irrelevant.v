(* C14: for every supported builtin whose overload has no **kwargs parameter (all but print_ in the
   current source), the forwarding property does not depend on the order in which the keyword
   arguments are written: if it holds for a call it holds for every permutation of its keywords.
   Together with overload_forwards_same_call (keywords in documented order) this covers every
   keyword order.  print_ forwards its **kwargs dict unchanged; its keyword orders are covered by the
   exhaustive shape correspondence only. *)
From Coq Require Import List String Bool Permutation.
Import ListNotations.
Require Import MV.Builtins.Binding MV.Builtins.Overload MV.Builtins.DocSigs MV.Builtins.BuiltinsCheck
  MV.Builtins.OverloadProofs MV.Generated.C14_gen MV.Builtins.ForwardingProofs.

Theorem kwarg_order_irrelevant :
  forall b d f fd, In b (supported table_gen) -> doc_of b = Some d ->
    assoc b (fmap table_gen) = Some f -> assoc f (fns table_gen) = Some fd -> varkw (fsig fd) = None ->
  forall (V : Type) (truthy : V -> option bool) reg (args : list V) kws kws',
    Permutation kws kws' ->
    good truthy reg table_gen b d args kws -> good truthy reg table_gen b d args kws'.
Proof.
  intros b d f fd I D M F NV V truthy reg args kws kws' P G.
  apply (good_perm V truthy reg table_gen b d f fd args kws kws'); auto.
  apply mem_In. exact I.
Qed.

(* the two theorems combined *)
Theorem overload_forwards_same_call_any_order :
  forall b d f fd, In b (supported table_gen) -> doc_of b = Some d -> conforms table_gen b = true ->
    assoc b (fmap table_gen) = Some f -> assoc f (fns table_gen) = Some fd -> varkw (fsig fd) = None ->
  forall (V : Type) (truthy : V -> option bool) (r : string -> V -> option nat),
    (forall n v, r n v = None) ->
  forall (args : list V) (kv : string -> option V) kws,
    Permutation (canon (kw_names (dsig d)) kv) kws ->
    good truthy (Some r) table_gen b d args kws.
Proof.
  intros b d f fd I D C M F NV V truthy r E args kv kws P.
  apply (kwarg_order_irrelevant b d f fd I D M F NV V truthy (Some r) args _ kws P).
  apply good_empty; [exact E|]. exact (forwards_conforming b d I D C V truthy args kv).
Qed.
Print Assumptions kwarg_order_irrelevant.
Print Assumptions overload_forwards_same_call_any_order.
