(* C14: globals() / locals() in converted code hand out the mapping of the frame found -- the
   object itself, as the generated table says (ctx_ns_gen, read from the return statements of
   globals_in_original_context / locals_in_original_context) -- and therefore behave like the
   Python builtins on EVERY trace of calls, writes / deletions / reads through any result (held
   in a variable or used in place), reads and writes of the names themselves, and identity
   comparisons: globals() is the live module dictionary (a write through it is a write to the
   global name, every call gives the same object); locals() is the frame's f_locals dictionary of
   CPython <= 3.12 (one object per frame, refreshed from the variables at each call).
   `run` = implementation model with object identities (own mapping + copies), `spec_run` = the
   builtin (one mapping).  WHICH frame is found is the subject of frame_lookup /
   context_builtins_find_function_frame_partial.  Non-vacuity / sensitivity: an implementation
   that hands out a copy is refuted by three 2-4 step traces (snapshot_is_not_the_builtin). *)
From Coq Require Import List String Bool Arith.
Import ListNotations.
Require Import MV.Builtins.Namespaces MV.Builtins.NamespacesProofs MV.Generated.C14_gen.
Local Open Scope string_scope.

Theorem globals_locals_hand_out_own_mapping :
  (exists h, ns_lookup "globals" ctx_ns_gen = Some h) /\ (exists h, ns_lookup "locals" ctx_ns_gen = Some h) /\
  forall b ho, ns_lookup b ctx_ns_gen = Some ho ->
  forall vars mapping trace, run ho (kind_of b) vars mapping trace = spec_run (kind_of b) vars mapping trace.
Proof. apply table_ok_is_the_builtin. vm_compute. reflexivity. Qed.

Theorem snapshot_is_not_the_builtin :
  run Snapshot KGlobals [] [("K", 1)] [OSet HFresh "K" 7; OGetName "K"] <> spec_run KGlobals [] [("K", 1)] [OSet HFresh "K" 7; OGetName "K"]
  /\ run Snapshot KGlobals [] [] [OSame HFresh HFresh] <> spec_run KGlobals [] [] [OSame HFresh HFresh]
  /\ run Snapshot KLocals [("a", 1)] [] [OCall 0; OSetName "a" 2; OCall 1; OGet (HVar 0) "a"]
     <> spec_run KLocals [("a", 1)] [] [OCall 0; OSetName "a" 2; OCall 1; OGet (HVar 0) "a"].
Proof. exact snapshot_differs. Qed.
Print Assumptions globals_locals_hand_out_own_mapping.
Print Assumptions snapshot_is_not_the_builtin.
